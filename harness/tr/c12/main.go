package main

import (
	"fmt"
	"go/ast"
	"go/token"
	"strconv"
	"strings"

	. "verifharness/tlib"
)

func main() { Main() }

// RtspFacts: the source-level facts of the RTSP / WSP session automaton
//   service/rtsp/session.go   status constants, onPreprocess gate, onRequest dispatch, onPlay guards
//   service/rtsp/session_roles.go   response-before-attach order of the three consumer roles
//   service/wsp/session.go    the same for the WSP control channel
//   av/format/rtsp/request.go, response.go   method strings and the status codes the model uses
func init() {
	Register("RtspFacts", func(e *Emitter) {
		sess := Parse("service/rtsp/session.go")
		roles := Parse("service/rtsp/session_roles.go")
		wsp := Parse("service/wsp/session.go")
		req := Parse("av/format/rtsp/request.go")
		rsp := Parse("av/format/rtsp/response.go")

		e.P("/-- service/rtsp/session.go: the `statusInit = iota …` block, in order -/")
		e.P("def rtspStatusOrder : List String := %s", LeanStrList(iotaBlock(e, sess, "statusInit", "rtspStatusOrder")))
		e.P("/-- service/wsp/session.go: the status block, in order -/")
		e.P("def wspStatusOrder : List String := %s", LeanStrList(iotaBlock(e, wsp, "statusInit", "wspStatusOrder")))

		e.P("/-- rtsp onPreprocess: `switch s.status` rows (case, negated, methods compared with req.Method) -/")
		e.P("def rtspGate : List (String × Bool × List String) := %s", gateTable(e, FuncDecl(sess, "Session", "onPreprocess"), "rtspGate"))
		e.P("/-- wsp onPreprocess: the same table -/")
		e.P("def wspGate : List (String × Bool × List String) := %s", gateTable(e, FuncDecl(wsp, "Session", "onPreprocess"), "wspGate"))

		pre := preFacts(e, FuncDecl(sess, "Session", "onPreprocess"), "rtspPre", true)
		e.P("/-- rtsp onPreprocess: what precedes the status gate, in order: (method, calls made before returning) -/")
		e.P("def rtspPre : List (String × List String) := %s", pre)
		e.P("/-- wsp onPreprocess: the same -/")
		e.P("def wspPre : List (String × List String) := %s", preFacts(e, FuncDecl(wsp, "Session", "onPreprocess"), "wspPre", false))
		e.P("/-- rtsp onPreprocess: the status code set when the gate refuses -/")
		e.P("def rtspGateRefusal : String := %s", LeanStr(gateRefusal(e, FuncDecl(sess, "Session", "onPreprocess"), "rtspGateRefusal")))
		e.P("def wspGateRefusal : String := %s", LeanStr(gateRefusal(e, FuncDecl(wsp, "Session", "onPreprocess"), "wspGateRefusal")))

		e.P("/-- rtsp onRequest: `switch req.Method` rows (method constant, handler called, returns the handler's result directly) -/")
		d, def455 := dispatch(e, FuncDecl(sess, "Session", "onRequest"), "rtspDispatch")
		e.P("def rtspDispatch : List (String × String × Bool) := %s", d)
		e.P("def rtspDispatchDefault : String := %s", LeanStr(def455))
		d, def455 = dispatch(e, FuncDecl(wsp, "Session", "onRequest"), "wspDispatch")
		e.P("def wspDispatch : List (String × String × Bool) := %s", d)
		e.P("def wspDispatchDefault : String := %s", LeanStr(def455))
		e.P("/-- rtsp onRequest ends with `err = s.response(resp)` after the switch -/")
		e.P("def rtspRequestRespondsAfterSwitch : Bool := %s", LeanBool(respondsAfterSwitch(FuncDecl(sess, "Session", "onRequest"))))

		// onPlay
		again, needsOk := onPlayFacts(e, FuncDecl(sess, "Session", "onPlay"))
		e.P("/-- onPlay: the `s.status == statusPlaying` branch writes the response -/")
		e.P("def onPlayAgainResponds : Bool := %s", LeanBool(again))
		e.P("/-- onPlay: `s.status = statusPlaying` is guarded by `err == nil && resp.StatusCode == StatusOK` -/")
		e.P("def onPlayPlayingNeedsOk : Bool := %s", LeanBool(needsOk))
		e.P("/-- onPlay / onRecord: the refusal ladder (condition, status constant) in source order -/")
		e.P("def onPlayLadder : List (String × String × String) := %s", ladder(e, FuncDecl(sess, "Session", "onPlay"), "onPlayLadder"))
		e.P("def onRecordLadder : List (String × String × String) := %s", ladder(e, FuncDecl(sess, "Session", "onRecord"), "onRecordLadder"))
		e.P("def onDescribeLadder : List (String × String × String) := %s", ladder(e, FuncDecl(sess, "Session", "onDescribe"), "onDescribeLadder"))
		e.P("def onAnnounceLadder : List (String × String × String) := %s", ladder(e, FuncDecl(sess, "Session", "onAnnounce"), "onAnnounceLadder"))
		e.P("def onSetupLadder : List (String × String × String) := %s", ladder(e, FuncDecl(sess, "Session", "onSetup"), "onSetupLadder"))
		e.P("def wspOnSetupLadder : List (String × String × String) := %s", ladder(e, FuncDecl(wsp, "Session", "onSetup"), "wspOnSetupLadder"))
		e.P("def wspOnPlayLadder : List (String × String × String) := %s", ladder(e, FuncDecl(wsp, "Session", "onPlay"), "wspOnPlayLadder"))
		e.P("def wspOnDescribeLadder : List (String × String × String) := %s", ladder(e, FuncDecl(wsp, "Session", "onDescribe"), "wspOnDescribeLadder"))

		// onPack: what happens to an interleaved packet sent by the client
		e.P("/-- rtsp onPack: the guard in front of `s.stream.WritePacket` (condition => what its block ends with), \"\" if there is none -/")
		e.P("def onPackGuard : String := %s", LeanStr(onPackGuard(e, FuncDecl(sess, "Session", "onPack"))))
		e.P("/-- rtsp onPack: the calls it makes, in order -/")
		e.P("def onPackCalls : List String := %s", LeanStrList(callsOfFunc(FuncDecl(sess, "Session", "onPack"))))

		// newResponse: the header fields every response gets; who else touches them; where the id is assigned
		e.P("/-- rtsp newResponse: the `resp.Header.Set(k, v)` statements of its body, in order -/")
		e.P("def rtspNewResponseSets : List (String × String) := %s", headerSets(e, FuncDecl(sess, "Session", "newResponse"), "rtspNewResponseSets"))
		e.P("/-- wsp newResponse: the same -/")
		e.P("def wspNewResponseSets : List (String × String) := %s", headerSets(e, FuncDecl(wsp, "Session", "newResponse"), "wspNewResponseSets"))
		e.P("/-- every other statement of the session files that sets or deletes the CSeq / Session header of a response, or assigns `lsession` -/")
		e.P("def respIdentityTouched : List String := %s", LeanStrList(identityTouched(e, map[string]*ast.File{
			"service/rtsp/session.go": sess, "service/rtsp/session_roles.go": roles, "service/wsp/session.go": wsp})))
		e.P("/-- how often each handler-side function obtains its response from newResponse: (function, count) -/")
		e.P("def newResponseCalls : List (String × Nat) := %s", newRespCalls(map[string]*ast.File{"rtsp": sess, "wsp": wsp}))

		// roles: tracked calls in source order
		for _, fn := range []string{"asTCPConsumer", "asUDPConsumer", "asMulticastConsumer", "asTCPPusher"} {
			e.P("/-- session_roles.go %s: tracked calls in source order -/", fn)
			e.P("def %sCalls : List String := %s", fn, LeanStrList(trackedCalls(e, FuncDecl(roles, "Session", fn), fn,
				[]string{"s.response", "stream.StartConsume", "ma.AddMember", "media.Regist", "c.prepareUDP"})))
		}
		e.P("/-- session.go process: calls of the deferred cleanup, in order -/")
		e.P("def processCleanup : List String := %s", LeanStrList(deferCalls(e, FuncDecl(sess, "Session", "process"), "processCleanup",
			[]string{"s.Close", "s.consumer.Close", "s.stream.Close"})))
		e.P("/-- wsp session.go process: calls of the deferred cleanup, in order -/")
		e.P("def wspProcessCleanup : List String := %s", LeanStrList(deferCalls(e, FuncDecl(wsp, "Session", "process"), "wspProcessCleanup",
			[]string{"s.source.StopConsume", "s.Close", "s.svr.sessions.Delete"})))
		for _, c := range [][3]string{{"tcpConsumerClose", "tcpConsumer", "c.source.StopConsume"}, {"udpConsumerClose", "udpConsumer", "c.source.StopConsume"},
			{"multicastConsumerClose", "multicastConsumer", "c.source.Multicastable().ReleaseMember"}, {"tcpPushStreamClose", "tcpPushStream", "media.Unregist"}} {
			e.P("def %sCalls : List String := %s", c[0], LeanStrList(trackedCalls(e, FuncDecl(roles, c[1], "Close"), c[0], []string{c[2]})))
		}

		// what each role acquires and what its Close hands back: the WHOLE call, arguments included (a
		// release that names another handle than the one acquired releases nothing)
		e.P("/-- session_roles.go: per role (as… function, Close of its role object): the acquiring statement and the releasing call, whole, with arguments -/")
		var hs []string
		for _, c := range [][5]string{{"tcp", "asTCPConsumer", "stream.StartConsume", "tcpConsumer", "c.source.StopConsume"},
			{"udp", "asUDPConsumer", "stream.StartConsume", "udpConsumer", "c.source.StopConsume"},
			{"multicast", "asMulticastConsumer", "ma.AddMember", "multicastConsumer", "c.source.Multicastable().ReleaseMember"},
			{"pusher", "asTCPPusher", "media.Regist", "tcpPushStream", "media.Unregist"}} {
			acq := wholeCalls(FuncDecl(roles, "Session", c[1]), c[2])
			rel := wholeCalls(FuncDecl(roles, c[3], "Close"), c[4])
			if len(acq) != 1 || len(rel) != 1 {
				e.Unknown("roleHandles:" + c[0])
			}
			hs = append(hs, "("+LeanStr(c[0])+", "+LeanStrList(acq)+", "+LeanStrList(rel)+")")
		}
		e.P("def roleHandles : List (String × List String × List String) := [%s]", strings.Join(hs, ", "))
		// what the role objects are built from (the handle the release names must be the one stored here)
		e.P("/-- session_roles.go: the composite literals the as… functions build their role objects from -/")
		var lits []string
		for _, fn := range []string{"asTCPConsumer", "asUDPConsumer", "asMulticastConsumer", "asTCPPusher"} {
			if fd := FuncDecl(roles, "Session", fn); fd != nil {
				ast.Inspect(fd.Body, func(n ast.Node) bool {
					if cl, ok := n.(*ast.CompositeLit); ok {
						t := strings.Join(strings.Fields(Src(cl.Type)), "")
						if t == "tcpConsumer" || t == "udpConsumer" || t == "multicastConsumer" || t == "tcpPushStream" {
							lits = append(lits, fn+": "+strings.Join(strings.Fields(Src(cl)), " "))
						}
					}
					return true
				})
			} else {
				e.Unknown("roleLiterals:" + fn)
			}
		}
		e.P("def roleLiterals : List String := %s", LeanStrList(lits))

		// the member registry of the multicast proxy: the guards of AddMember / ReleaseMember and what they do
		mp := Parse("service/rtsp/multicast_proxy.go")
		e.P("/-- multicast_proxy.go AddMember / ReleaseMember: the `if` conditions, in order, and the tracked calls -/")
		e.P("def proxyAddConds : List String := %s", LeanStrList(Conds(FuncDecl(mp, "multicastProxy", "AddMember"))))
		e.P("def proxyReleaseConds : List String := %s", LeanStrList(Conds(FuncDecl(mp, "multicastProxy", "ReleaseMember"))))
		e.P("def proxyAddCalls : List String := %s", LeanStrList(trackedCalls(e, FuncDecl(mp, "multicastProxy", "AddMember"), "proxyAddCalls",
			[]string{"append", "stream.StartConsume", "net.ListenUDP"})))
		e.P("def proxyReleaseCalls : List String := %s", LeanStrList(trackedCalls(e, FuncDecl(mp, "multicastProxy", "ReleaseMember"), "proxyReleaseCalls",
			[]string{"append", "proxy.close"})))
		e.P("def proxyCloseCalls : List String := %s", LeanStrList(trackedCalls(e, FuncDecl(mp, "multicastProxy", "close"), "proxyCloseCalls",
			[]string{"stream.StopConsume", "proxy.udpConn.Close", "m.Close"})))

		// method strings and status codes
		var ms []string
		for _, m := range []string{"MethodOptions", "MethodDescribe", "MethodAnnounce", "MethodSetup", "MethodPlay", "MethodPause",
			"MethodTeardown", "MethodGetParameter", "MethodSetParameter", "MethodRecord", "MethodRedirect"} {
			v := ""
			if lit, ok := TopValue(req, m).(*ast.BasicLit); ok {
				v, _ = strconv.Unquote(lit.Value)
			} else {
				e.Unknown(m)
			}
			ms = append(ms, fmt.Sprintf("(%s, %s)", LeanStr(m), LeanStr(v)))
		}
		e.P("/-- av/format/rtsp/request.go: the method tokens -/")
		e.P("def methodTokens : List (String × String) := [%s]", strings.Join(ms, ", "))
		var sc []string
		for _, c := range []string{"StatusOK", "StatusBadRequest", "StatusForbidden", "StatusNotFound", "StatusInvalidParameter",
			"StatusMethodNotValidInThisState", "StatusUnsupportedTransport", "StatusInternalServerError"} {
			v := 0
			if lit, ok := TopValue(rsp, c).(*ast.BasicLit); ok {
				v, _ = strconv.Atoi(lit.Value)
			} else {
				e.Unknown(c)
			}
			sc = append(sc, fmt.Sprintf("(%s, %d)", LeanStr(c), v))
		}
		// wsp protocol constants
		wp := Parse("service/wsp/protocol.go")
		var wc []string
		for _, c := range []string{"wspProto", "prefixBody", "CmdInit", "CmdJoin", "CmdWrap", "CmdGetInfo", "CmdSwitch", "FieldSeq", "FieldChannel"} {
			v := ""
			if lit, ok := TopValue(wp, c).(*ast.BasicLit); ok {
				v, _ = strconv.Unquote(lit.Value)
			} else {
				e.Unknown(c)
			}
			wc = append(wc, fmt.Sprintf("(%s, %s)", LeanStr(c), LeanStr(v)))
		}
		e.P("/-- service/wsp/protocol.go: protocol token, separator, commands, field names -/")
		e.P("def wspConsts : List (String × String) := [%s]", strings.Join(wc, ", "))
		e.P("/-- av/format/rtsp/response.go: the status codes the session uses -/")
		e.P("def statusCodes : List (String × Nat) := [%s]", strings.Join(sc, ", "))
	})
}

// iotaBlock returns the names of the const block that starts with `first = iota`
func iotaBlock(e *Emitter, f *ast.File, first, what string) []string {
	if f == nil {
		e.Unknown(what)
		return nil
	}
	for _, d := range f.Decls {
		g, ok := d.(*ast.GenDecl)
		if !ok || g.Tok != token.CONST || len(g.Specs) == 0 {
			continue
		}
		vs := g.Specs[0].(*ast.ValueSpec)
		if len(vs.Names) == 1 && vs.Names[0].Name == first && len(vs.Values) == 1 && Src(vs.Values[0]) == "iota" {
			var out []string
			for i, s := range g.Specs {
				v := s.(*ast.ValueSpec)
				if len(v.Names) != 1 || (i > 0 && len(v.Values) != 0) {
					e.Unknown(what)
					return nil
				}
				out = append(out, v.Names[0].Name)
			}
			return out
		}
	}
	e.Unknown(what)
	return nil
}

func stripPkg(s string) string {
	if i := strings.LastIndex(s, "."); i >= 0 {
		return s[i+1:]
	}
	return s
}

// methodsOf decomposes `req.Method == A || req.Method == B …` (optionally wrapped in !( ))
func methodsOf(x ast.Expr) (neg bool, ms []string, ok bool) {
	for {
		if p, isP := x.(*ast.ParenExpr); isP {
			x = p.X
			continue
		}
		break
	}
	if u, isU := x.(*ast.UnaryExpr); isU && u.Op == token.NOT {
		n, m, k := methodsOf(u.X)
		return !n, m, k
	}
	var walk func(ast.Expr) bool
	walk = func(x ast.Expr) bool {
		if p, isP := x.(*ast.ParenExpr); isP {
			return walk(p.X)
		}
		b, isB := x.(*ast.BinaryExpr)
		if !isB {
			return false
		}
		switch b.Op {
		case token.LOR:
			return walk(b.X) && walk(b.Y)
		case token.EQL:
			if Src(b.X) != "req.Method" {
				return false
			}
			ms = append(ms, stripPkg(Src(b.Y)))
			return true
		}
		return false
	}
	ok = walk(x)
	return
}

func findStatusSwitch(fd *ast.FuncDecl) *ast.SwitchStmt {
	var sw *ast.SwitchStmt
	if fd == nil {
		return nil
	}
	ast.Inspect(fd.Body, func(n ast.Node) bool {
		if s, ok := n.(*ast.SwitchStmt); ok && s.Tag != nil && Src(s.Tag) == "s.status" && sw == nil {
			sw = s
		}
		return true
	})
	return sw
}

func gateTable(e *Emitter, fd *ast.FuncDecl, what string) string {
	sw := findStatusSwitch(fd)
	if sw == nil {
		e.Unknown(what)
		return "[]"
	}
	var rows []string
	for _, c := range sw.Body.List {
		cc := c.(*ast.CaseClause)
		name := "default"
		if len(cc.List) == 1 {
			name = Src(cc.List[0])
		} else if len(cc.List) > 1 {
			e.Unknown(what)
			return "[]"
		}
		if len(cc.Body) != 1 {
			e.Unknown(what)
			return "[]"
		}
		as, ok := cc.Body[0].(*ast.AssignStmt)
		if !ok || len(as.Lhs) != 1 || Src(as.Lhs[0]) != "continueProcess" || len(as.Rhs) != 1 {
			e.Unknown(what)
			return "[]"
		}
		neg, ms, ok := methodsOf(as.Rhs[0])
		if !ok {
			e.Unknown(what)
			return "[]"
		}
		rows = append(rows, fmt.Sprintf("(%s, %s, %s)", LeanStr(name), LeanBool(neg), LeanStrList(ms)))
	}
	return "[" + strings.Join(rows, ", ") + "]"
}

// callsIn lists the calls (source text of the callee) made by the statements, in order
func callsIn(stmts []ast.Stmt) []string {
	var out []string
	for _, s := range stmts {
		ast.Inspect(s, func(n ast.Node) bool {
			if c, ok := n.(*ast.CallExpr); ok {
				out = append(out, Src(c.Fun))
			}
			return true
		})
	}
	return out
}

// preFacts: the `if req.Method == X { … return false … }` blocks that precede the status switch
func preFacts(e *Emitter, fd *ast.FuncDecl, what string, wantErrRet bool) string {
	if fd == nil {
		e.Unknown(what)
		return "[]"
	}
	var rows []string
	for _, st := range fd.Body.List {
		if _, isSw := st.(*ast.SwitchStmt); isSw {
			break
		}
		ifs, ok := st.(*ast.IfStmt)
		if !ok {
			continue
		}
		_, ms, ok := methodsOf(ifs.Cond)
		if !ok || len(ms) != 1 || ifs.Else != nil {
			e.Unknown(what)
			return "[]"
		}
		// must end in `return false…`
		n := len(ifs.Body.List)
		ret, isRet := ifs.Body.List[n-1].(*ast.ReturnStmt)
		if n == 0 || !isRet || len(ret.Results) == 0 || Src(ret.Results[0]) != "false" {
			e.Unknown(what)
			return "[]"
		}
		var calls []string
		for _, c := range callsIn(ifs.Body.List) {
			if c == "s.response" || c == "s.Close" {
				calls = append(calls, c)
			}
		}
		rows = append(rows, fmt.Sprintf("(%s, %s)", LeanStr(ms[0]), LeanStrList(calls)))
	}
	return "[" + strings.Join(rows, ", ") + "]"
}

// gateRefusal: the `if !continueProcess { resp.StatusCode = X … return false }` block
func gateRefusal(e *Emitter, fd *ast.FuncDecl, what string) string {
	if fd == nil {
		e.Unknown(what)
		return ""
	}
	for _, st := range fd.Body.List {
		ifs, ok := st.(*ast.IfStmt)
		if !ok || Src(ifs.Cond) != "!continueProcess" {
			continue
		}
		for _, b := range ifs.Body.List {
			if as, ok := b.(*ast.AssignStmt); ok && len(as.Lhs) == 1 && Src(as.Lhs[0]) == "resp.StatusCode" {
				return stripPkg(Src(as.Rhs[0]))
			}
		}
	}
	e.Unknown(what)
	return ""
}

func findMethodSwitch(fd *ast.FuncDecl) *ast.SwitchStmt {
	if fd == nil {
		return nil
	}
	for _, st := range fd.Body.List {
		if s, ok := st.(*ast.SwitchStmt); ok && s.Tag != nil && Src(s.Tag) == "req.Method" {
			return s
		}
	}
	return nil
}

func dispatch(e *Emitter, fd *ast.FuncDecl, what string) (string, string) {
	sw := findMethodSwitch(fd)
	if sw == nil {
		e.Unknown(what)
		return "[]", ""
	}
	var rows []string
	def := ""
	for _, c := range sw.Body.List {
		cc := c.(*ast.CaseClause)
		if len(cc.List) == 0 {
			if len(cc.Body) == 1 {
				if as, ok := cc.Body[0].(*ast.AssignStmt); ok && Src(as.Lhs[0]) == "resp.StatusCode" {
					def = stripPkg(Src(as.Rhs[0]))
					continue
				}
			}
			e.Unknown(what + ".default")
			continue
		}
		if len(cc.List) != 1 || len(cc.Body) != 1 {
			e.Unknown(what)
			return "[]", ""
		}
		var call *ast.CallExpr
		direct := false
		switch b := cc.Body[0].(type) {
		case *ast.ExprStmt:
			call, _ = b.X.(*ast.CallExpr)
		case *ast.ReturnStmt:
			if len(b.Results) == 1 {
				call, _ = b.Results[0].(*ast.CallExpr)
				direct = true
			}
		}
		if call == nil {
			e.Unknown(what)
			return "[]", ""
		}
		rows = append(rows, fmt.Sprintf("(%s, %s, %s)", LeanStr(stripPkg(Src(cc.List[0]))), LeanStr(Src(call.Fun)), LeanBool(direct)))
	}
	return "[" + strings.Join(rows, ", ") + "]", def
}

func respondsAfterSwitch(fd *ast.FuncDecl) bool {
	if fd == nil {
		return false
	}
	seen := false
	for _, st := range fd.Body.List {
		if s, ok := st.(*ast.SwitchStmt); ok && s.Tag != nil && Src(s.Tag) == "req.Method" {
			seen = true
			continue
		}
		if seen {
			for _, c := range callsIn([]ast.Stmt{st}) {
				if c == "s.response" {
					return true
				}
			}
		}
	}
	return false
}

func onPlayFacts(e *Emitter, fd *ast.FuncDecl) (again, needsOk bool) {
	if fd == nil || len(fd.Body.List) < 2 {
		e.Unknown("onPlay")
		return
	}
	first, ok := fd.Body.List[0].(*ast.IfStmt)
	if !ok || Src(first.Cond) != "s.status == statusPlaying" {
		e.Unknown("onPlay.first")
		return
	}
	for _, c := range callsIn(first.Body.List) {
		if c == "s.response" {
			again = true
		}
	}
	// the last if: `if err == nil [&& resp.StatusCode == StatusOK] { s.status = statusPlaying }`
	var last *ast.IfStmt
	for _, st := range fd.Body.List {
		if ifs, ok := st.(*ast.IfStmt); ok && len(ifs.Body.List) == 1 && Src(ifs.Body.List[0]) == "s.status = statusPlaying" {
			last = ifs
		}
	}
	if last == nil {
		e.Unknown("onPlay.last")
		return
	}
	switch strings.Join(strings.Fields(Src(last.Cond)), " ") {
	case "err == nil":
		needsOk = false
	case "err == nil && resp.StatusCode == StatusOK":
		needsOk = true
	default:
		e.Unknown("onPlay.last.cond")
	}
	return
}

// ladder: every `if cond { … resp.StatusCode = X … }` of the function, in source order
// (nested ones included), as (condition text, status constant, how the rung ends): the last
// statement of the rung's block when it leaves the function (`return`, `return err`, …), "-" when
// control falls out of the block ("else" when an else branch is skipped that way)
func ladder(e *Emitter, fd *ast.FuncDecl, what string) string {
	if fd == nil {
		e.Unknown(what)
		return "[]"
	}
	var rows []string
	var visitIf func(ifs *ast.IfStmt)
	var visit func(stmts []ast.Stmt)
	visitIf = func(ifs *ast.IfStmt) {
		code := ""
		for _, b := range ifs.Body.List {
			if as, ok := b.(*ast.AssignStmt); ok && len(as.Lhs) == 1 && Src(as.Lhs[0]) == "resp.StatusCode" && code == "" {
				code = stripPkg(Src(as.Rhs[0]))
			}
		}
		if code != "" {
			end := "-"
			if ifs.Else != nil {
				end = "else"
			}
			if n := len(ifs.Body.List); n > 0 {
				if ret, ok := ifs.Body.List[n-1].(*ast.ReturnStmt); ok {
					end = strings.Join(strings.Fields(Src(ret)), " ")
				}
			}
			rows = append(rows, fmt.Sprintf("(%s, %s, %s)", LeanStr(strings.Join(strings.Fields(Src(ifs.Cond)), " ")), LeanStr(code), LeanStr(end)))
		}
		visit(ifs.Body.List)
		switch el := ifs.Else.(type) {
		case *ast.BlockStmt:
			visit(el.List)
		case *ast.IfStmt:
			visitIf(el)
		}
	}
	visit = func(stmts []ast.Stmt) {
		for _, st := range stmts {
			switch s := st.(type) {
			case *ast.IfStmt:
				visitIf(s)
			case *ast.BlockStmt:
				visit(s.List)
			case *ast.SwitchStmt:
				for _, c := range s.Body.List {
					visit(c.(*ast.CaseClause).Body)
				}
			}
		}
	}
	visit(fd.Body.List)
	return "[" + strings.Join(rows, ", ") + "]"
}

// onPackGuard: `if <cond> { …; return nil }` as the first statement of onPack
func onPackGuard(e *Emitter, fd *ast.FuncDecl) string {
	if fd == nil {
		e.Unknown("onPackGuard")
		return ""
	}
	if len(fd.Body.List) == 0 {
		return ""
	}
	ifs, ok := fd.Body.List[0].(*ast.IfStmt)
	if !ok || ifs.Else != nil || len(ifs.Body.List) == 0 {
		return ""
	}
	ret, ok := ifs.Body.List[len(ifs.Body.List)-1].(*ast.ReturnStmt)
	if !ok {
		return ""
	}
	return strings.Join(strings.Fields(Src(ifs.Cond)), " ") + " => " + strings.Join(strings.Fields(Src(ret)), " ")
}

func callsOfFunc(fd *ast.FuncDecl) []string {
	if fd == nil {
		return nil
	}
	return callsIn(fd.Body.List)
}

// headerSets: the top-level `resp.Header.Set(k, v)` statements of newResponse
func headerSets(e *Emitter, fd *ast.FuncDecl, what string) string {
	if fd == nil {
		e.Unknown(what)
		return "[]"
	}
	var rows []string
	for _, st := range fd.Body.List {
		es, ok := st.(*ast.ExprStmt)
		if !ok {
			continue
		}
		c, ok := es.X.(*ast.CallExpr)
		if !ok || Src(c.Fun) != "resp.Header.Set" || len(c.Args) != 2 {
			continue
		}
		rows = append(rows, fmt.Sprintf("(%s, %s)", LeanStr(stripPkg(Src(c.Args[0]))), LeanStr(strings.ReplaceAll(Src(c.Args[1]), "rtsp.", ""))))
	}
	return "[" + strings.Join(rows, ", ") + "]"
}

// identityTouched: outside newResponse / newSession, every Header.Set / Header.Del of FieldCSeq or
// FieldSession on something that is not a request the session itself builds, and every write of lsession
func identityTouched(e *Emitter, files map[string]*ast.File) []string {
	var out []string
	var names []string
	for n := range files {
		names = append(names, n)
	}
	sortStrings(names)
	for _, n := range names {
		f := files[n]
		if f == nil {
			e.Unknown("respIdentityTouched:" + n)
			continue
		}
		for _, d := range f.Decls {
			fd, ok := d.(*ast.FuncDecl)
			if !ok || fd.Body == nil {
				continue
			}
			fn := fd.Name.Name
			ast.Inspect(fd.Body, func(x ast.Node) bool {
				switch v := x.(type) {
				case *ast.CallExpr:
					if sel, ok := v.Fun.(*ast.SelectorExpr); ok && (sel.Sel.Name == "Set" || sel.Sel.Name == "Del" || sel.Sel.Name == "Add") &&
						strings.HasSuffix(Src(sel.X), ".Header") && len(v.Args) > 0 {
						k := stripPkg(Src(v.Args[0]))
						if (k == "FieldCSeq" || k == "FieldSession") && fn != "newResponse" {
							out = append(out, n+":"+fn+": "+strings.Join(strings.Fields(Src(v)), " "))
						}
					}
				case *ast.AssignStmt:
					for _, l := range v.Lhs {
						if strings.HasSuffix(Src(l), ".lsession") {
							out = append(out, n+":"+fn+": "+strings.Join(strings.Fields(Src(v)), " "))
						}
					}
				case *ast.KeyValueExpr:
					if Src(v.Key) == "lsession" && fn != "newSession" {
						out = append(out, n+":"+fn+": "+strings.Join(strings.Fields(Src(v)), " "))
					}
				}
				return true
			})
		}
	}
	return out
}

func sortStrings(a []string) {
	for i := 1; i < len(a); i++ {
		for j := i; j > 0 && a[j] < a[j-1]; j-- {
			a[j], a[j-1] = a[j-1], a[j]
		}
	}
}

// newRespCalls: which functions build a response, and how many times
func newRespCalls(files map[string]*ast.File) string {
	var rows []string
	for _, k := range []string{"rtsp", "wsp"} {
		f := files[k]
		if f == nil {
			continue
		}
		for _, d := range f.Decls {
			fd, ok := d.(*ast.FuncDecl)
			if !ok || fd.Body == nil {
				continue
			}
			n := 0
			for _, c := range callsIn(fd.Body.List) {
				if c == "s.newResponse" {
					n++
				}
			}
			if n > 0 {
				rows = append(rows, fmt.Sprintf("(%s, %d)", LeanStr(k+":"+fd.Name.Name), n))
			}
		}
	}
	return "[" + strings.Join(rows, ", ") + "]"
}

func trackedCalls(e *Emitter, fd *ast.FuncDecl, what string, tracked []string) []string {
	if fd == nil {
		e.Unknown(what)
		return nil
	}
	var out []string
	for _, c := range callsIn(fd.Body.List) {
		for _, t := range tracked {
			if c == t {
				out = append(out, c)
			}
		}
	}
	return out
}

func deferCalls(e *Emitter, fd *ast.FuncDecl, what string, tracked []string) []string {
	if fd == nil {
		e.Unknown(what)
		return nil
	}
	for _, st := range fd.Body.List {
		if d, ok := st.(*ast.DeferStmt); ok {
			if fl, ok := d.Call.Fun.(*ast.FuncLit); ok {
				var out []string
				for _, c := range callsIn(fl.Body.List) {
					for _, t := range tracked {
						if c == t {
							out = append(out, c)
						}
					}
				}
				return out
			}
		}
	}
	e.Unknown(what)
	return nil
}

// wholeCalls: the statements / calls of fd whose called function is `fun`, whole (an assignment of the
// result included), whitespace-normalised, in source order
func wholeCalls(fd *ast.FuncDecl, fun string) []string {
	var out []string
	if fd == nil || fd.Body == nil {
		return out
	}
	norm := func(n ast.Node) string { return strings.Join(strings.Fields(Src(n)), " ") }
	seen := map[*ast.CallExpr]bool{}
	ast.Inspect(fd.Body, func(n ast.Node) bool {
		switch x := n.(type) {
		case *ast.AssignStmt:
			for _, r := range x.Rhs {
				if c, ok := r.(*ast.CallExpr); ok && strings.Join(strings.Fields(Src(c.Fun)), "") == fun {
					seen[c] = true
					out = append(out, norm(x))
				}
			}
		case *ast.CallExpr:
			if !seen[x] && strings.Join(strings.Fields(Src(x.Fun)), "") == fun {
				out = append(out, norm(x))
			}
		}
		return true
	})
	return out
}
