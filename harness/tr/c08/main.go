// Translator of property C08: re-extracts from /repo's working tree the source-level facts the
// FLV theorems are stated over and writes lean/IpcHub/Gen/FlvFacts.lean.
//
//   - constants (tag types, codec ids, frame types, packet types, sound constants, type flags,
//     AMF0 markers, NAL unit types, media types, metadata property names), the header template
//   - guards: NewWriter's stream-bit check, Writer.WriteFlvTag's first-tag guard and clamp,
//     the key-frame conditions of the two video packetizers, Muxer.process' parameter-set gate
//   - call orders: the sequence-header block and the loop of Muxer.process, the order of the
//     metadata properties
//   - the timestamp / composition-time expressions of every tag the packetizers build
//
// go/ast only.  Anything whose shape is not recognised becomes `unknown` (obligation fails).
package main

import (
	"fmt"
	"go/ast"
	"go/token"
	"strconv"
	"strings"

	. "verifharness/tlib"
)

func main() { Main() }

// ---- a small constant evaluator (ints, iota, + - | & << >> * /, parentheses, T(x)) ----

type constEnv struct {
	file *ast.File
	vals map[string]int64
	ok   map[string]bool
}

func newEnv(f *ast.File) *constEnv {
	env := &constEnv{file: f, vals: map[string]int64{}, ok: map[string]bool{}}
	if f == nil {
		return env
	}
	for _, d := range f.Decls {
		g, isGen := d.(*ast.GenDecl)
		if !isGen || g.Tok != token.CONST {
			continue
		}
		var last []ast.Expr
		for i, s := range g.Specs {
			vs := s.(*ast.ValueSpec)
			vals := vs.Values
			if len(vals) == 0 {
				vals = last
			} else {
				last = vals
			}
			for j, n := range vs.Names {
				if j < len(vals) {
					if v, ok := env.eval(vals[j], int64(i)); ok {
						env.vals[n.Name] = v
						env.ok[n.Name] = true
					}
				}
			}
		}
	}
	return env
}

func (env *constEnv) eval(e ast.Expr, iota int64) (int64, bool) {
	switch x := e.(type) {
	case *ast.BasicLit:
		switch x.Kind {
		case token.INT:
			v, err := strconv.ParseInt(x.Value, 0, 64)
			if err != nil {
				u, err2 := strconv.ParseUint(x.Value, 0, 64)
				return int64(u), err2 == nil
			}
			return v, true
		case token.CHAR:
			r, _, _, err := strconv.UnquoteChar(x.Value[1:len(x.Value)-1], '\'')
			return int64(r), err == nil
		}
	case *ast.Ident:
		if x.Name == "iota" {
			return iota, true
		}
		v, ok := env.vals[x.Name]
		return v, ok
	case *ast.ParenExpr:
		return env.eval(x.X, iota)
	case *ast.CallExpr: // conversion T(x)
		if len(x.Args) == 1 {
			return env.eval(x.Args[0], iota)
		}
	case *ast.UnaryExpr:
		v, ok := env.eval(x.X, iota)
		if x.Op == token.SUB {
			return -v, ok
		}
		return v, ok && x.Op == token.ADD
	case *ast.BinaryExpr:
		a, ok1 := env.eval(x.X, iota)
		b, ok2 := env.eval(x.Y, iota)
		if !ok1 || !ok2 {
			return 0, false
		}
		switch x.Op {
		case token.ADD:
			return a + b, true
		case token.SUB:
			return a - b, true
		case token.MUL:
			return a * b, true
		case token.QUO:
			if b == 0 {
				return 0, false
			}
			return a / b, true
		case token.OR:
			return a | b, true
		case token.AND:
			return a & b, true
		case token.SHL:
			return a << uint(b), true
		case token.SHR:
			return a >> uint(b), true
		}
	}
	return 0, false
}

func emitInt(e *Emitter, env *constEnv, leanName, goName string) {
	v, ok := env.vals[goName]
	if !ok {
		e.Unknown(goName)
	}
	e.P("def %s : Int := %d", leanName, v)
}

func stringConst(f *ast.File, name string) (string, bool) {
	if lit, ok := TopValue(f, name).(*ast.BasicLit); ok && lit.Kind == token.STRING {
		s, err := strconv.Unquote(lit.Value)
		return s, err == nil
	}
	return "", false
}

// one-line source of a node
func src1(n ast.Node) string {
	return strings.Join(strings.Fields(Src(n)), " ")
}

// field `name: expr` of the first composite literal of type `typ` inside fn
func litField(fn *ast.FuncDecl, typ, name string) (string, bool) {
	res, found := "", false
	if fn == nil {
		return "", false
	}
	ast.Inspect(fn, func(n ast.Node) bool {
		cl, ok := n.(*ast.CompositeLit)
		if !ok || found || src1(cl.Type) != strings.TrimPrefix(typ, "&") {
			return true
		}
		for _, el := range cl.Elts {
			if kv, ok := el.(*ast.KeyValueExpr); ok && src1(kv.Key) == name {
				res, found = src1(kv.Value), true
			}
		}
		return true
	})
	return res, found
}

// the local `name := expr` / `name = expr` definitions of fn, in order
func localDefs(fn *ast.FuncDecl, name string) []string {
	var out []string
	if fn == nil {
		return out
	}
	ast.Inspect(fn, func(n ast.Node) bool {
		if as, ok := n.(*ast.AssignStmt); ok && len(as.Lhs) == 1 && len(as.Rhs) == 1 && src1(as.Lhs[0]) == name {
			out = append(out, src1(as.Rhs[0]))
		}
		return true
	})
	return out
}

// describe a statement of a block by its shape (calls and assignments literally, an `if` by its
// condition and — when its body is a lone continue/return — that keyword)
func stmtShape(s ast.Stmt) string {
	switch x := s.(type) {
	case *ast.ExprStmt:
		return src1(x.X)
	case *ast.AssignStmt:
		return src1(x)
	case *ast.IfStmt:
		pre := "if "
		if x.Init != nil {
			pre += src1(x.Init) + "; "
		}
		body := ""
		if len(x.Body.List) == 1 {
			switch b := x.Body.List[0].(type) {
			case *ast.BranchStmt:
				body = " " + b.Tok.String()
			case *ast.ReturnStmt:
				body = " " + src1(b)
			}
		}
		return pre + src1(x.Cond) + body
	case *ast.SwitchStmt:
		return "switch " + src1(x.Tag)
	case *ast.ForStmt:
		return "for " + src1(x.Cond)
	case *ast.DeferStmt:
		return "defer"
	case *ast.DeclStmt:
		if g, ok := x.Decl.(*ast.GenDecl); ok && len(g.Specs) == 1 {
			if vs, ok := g.Specs[0].(*ast.ValueSpec); ok && len(vs.Names) == 1 && len(vs.Values) == 0 {
				return "var " + vs.Names[0].Name + " " + src1(vs.Type)
			}
		}
		return src1(x)
	case *ast.ReturnStmt:
		return src1(x)
	}
	return fmt.Sprintf("%T", s)
}

func shapes(l []ast.Stmt) []string {
	out := []string{}
	for _, s := range l {
		sh := stmtShape(s)
		if strings.HasPrefix(sh, "verifhook.") { // instrumentation points (build tag verif) are not behaviour
			continue
		}
		out = append(out, sh)
	}
	return out
}

// every statement of a function body in source order, nested blocks walked in place: simple
// statements literally (one line), compound ones by their header (`if cond`, `for …`, `switch tag`,
// `case …`)
func flatStmts(fn *ast.FuncDecl) []string {
	out := []string{}
	if fn == nil || fn.Body == nil {
		return out
	}
	ast.Inspect(fn.Body, func(n ast.Node) bool {
		switch x := n.(type) {
		case *ast.AssignStmt, *ast.IncDecStmt, *ast.ReturnStmt, *ast.BranchStmt, *ast.DeclStmt:
			out = append(out, src1(x))
		case *ast.ExprStmt:
			sh := src1(x.X)
			if !strings.HasPrefix(sh, "verifhook.") {
				out = append(out, sh)
			}
		case *ast.IfStmt:
			pre := "if "
			if x.Init != nil {
				pre += src1(x.Init) + "; "
				out = append(out, pre+src1(x.Cond))
				// the init statement is part of the header: do not list it again
				ast.Inspect(x.Body, func(m ast.Node) bool { return true })
				for _, st := range x.Body.List {
					out = append(out, flatBlock(st)...)
				}
				if x.Else != nil {
					out = append(out, "else")
					out = append(out, flatBlock(x.Else)...)
				}
				return false
			}
			out = append(out, pre+src1(x.Cond))
		case *ast.ForStmt:
			h := "for"
			if x.Init != nil {
				h += " " + src1(x.Init) + ";"
			}
			if x.Cond != nil {
				h += " " + src1(x.Cond)
			}
			if x.Post != nil {
				h += "; " + src1(x.Post)
			}
			out = append(out, h)
			for _, st := range x.Body.List {
				out = append(out, flatBlock(st)...)
			}
			return false
		case *ast.RangeStmt:
			out = append(out, "for range "+src1(x.X))
		case *ast.SwitchStmt:
			out = append(out, "switch "+src1(x.Tag))
		case *ast.TypeSwitchStmt:
			out = append(out, "switch "+src1(x.Assign))
		case *ast.CaseClause:
			var l []string
			for _, e := range x.List {
				l = append(l, src1(e))
			}
			if len(l) == 0 {
				out = append(out, "default")
			} else {
				out = append(out, "case "+strings.Join(l, ", "))
			}
		}
		return true
	})
	return out
}

func flatBlock(st ast.Stmt) []string {
	return flatStmts(&ast.FuncDecl{Body: &ast.BlockStmt{List: []ast.Stmt{st}}})
}

func init() {
	Register("FlvFacts", func(e *Emitter) {
		flvgo := Parse("av/format/flv/flv.go")
		taggo := Parse("av/format/flv/tag.go")
		vdgo := Parse("av/format/flv/videodata.go")
		adgo := Parse("av/format/flv/audiodata.go")
		sdgo := Parse("av/format/flv/scriptdata.go")
		muxgo := Parse("av/format/flv/muxer.go")
		h264p := Parse("av/format/flv/h264_packetizer.go")
		h265p := Parse("av/format/flv/h265_packetizer.go")
		aacp := Parse("av/format/flv/aac_packetizer.go")
		amfany := Parse("av/format/amf/any.go")

		// ---------- constants ----------
		for _, c := range []struct {
			f    *ast.File
			lean string
			goN  string
		}{
			{flvgo, "flvHeaderSize", "FlvHeaderSize"}, {flvgo, "typeFlagsVideo", "TypeFlagsVideo"},
			{flvgo, "typeFlagsAudio", "TypeFlagsAudio"}, {flvgo, "typeFlagsOffset", "TypeFlagsOffset"},
			{taggo, "tagTypeAudio", "TagTypeAudio"}, {taggo, "tagTypeVideo", "TagTypeVideo"},
			{taggo, "tagTypeAmf0Data", "TagTypeAmf0Data"}, {taggo, "tagHeaderSize", "TagHeaderSize"},
			{vdgo, "frameTypeKeyFrame", "FrameTypeKeyFrame"}, {vdgo, "frameTypeInterFrame", "FrameTypeInterFrame"},
			{vdgo, "codecIDAVC", "CodecIDAVC"}, {vdgo, "codecIDHEVC", "CodecIDHEVC"},
			{vdgo, "h2645PacketTypeSequenceHeader", "H2645PacketTypeSequenceHeader"}, {vdgo, "h2645PacketTypeNALU", "H2645PacketTypeNALU"},
			{adgo, "soundFormatAAC", "SoundFormatAAC"},
			{adgo, "soundRate5512", "SoundRate5512"}, {adgo, "soundRate11025", "SoundRate11025"},
			{adgo, "soundRate22050", "SoundRate22050"}, {adgo, "soundRate44100", "SoundRate44100"},
			{adgo, "soundSize8bit", "SoundeSize8bit"}, {adgo, "soundSize16bit", "SoundeSize16bit"},
			{adgo, "soundTypeMono", "SoundTypeMono"}, {adgo, "soundTypeStereo", "SoundTypeStereo"},
			{adgo, "aacPacketTypeSequenceHeader", "AACPacketTypeSequenceHeader"}, {adgo, "aacPacketTypeRawData", "AACPacketTypeRawData"},
			{amfany, "amfTypeNumber", "TypeNumber"}, {amfany, "amfTypeBoolean", "TypeBoolean"},
			{amfany, "amfTypeString", "TypeString"}, {amfany, "amfTypeEcmaArray", "TypeEcmaArray"},
			{amfany, "amfTypeObjectEnd", "TypeObjectEnd"}, {amfany, "amfTypeLongString", "TypeLongString"},
			{Parse("av/codec/h264/const.go"), "h264NalIdrSlice", "NalIdrSlice"},
			{Parse("av/codec/hevc/const.go"), "hevcNalBlaWLp", "NalBlaWLp"}, {Parse("av/codec/hevc/const.go"), "hevcNalCraNut", "NalCraNut"},
			{Parse("av/codec/hevc/const.go"), "hevcNalVps", "NalVps"}, {Parse("av/codec/hevc/const.go"), "hevcNalSps", "NalSps"},
			{Parse("av/codec/hevc/const.go"), "hevcNalPps", "NalPps"},
			{Parse("av/codec/frame.go"), "mediaTypeVideo", "MediaTypeVideo"}, {Parse("av/codec/frame.go"), "mediaTypeAudio", "MediaTypeAudio"},
		} {
			emitInt(e, newEnv(c.f), c.lean, c.goN)
		}
		// flvHeaderTemplate
		var tmpl []string
		if cl, ok := TopValue(flvgo, "flvHeaderTemplate").(*ast.CompositeLit); ok && src1(cl.Type) == "[]byte" {
			env := newEnv(flvgo)
			for _, el := range cl.Elts {
				if v, ok := env.eval(el, 0); ok {
					tmpl = append(tmpl, strconv.FormatInt(v, 10))
				} else {
					e.Unknown("flvHeaderTemplate element")
				}
			}
		} else {
			e.Unknown("flvHeaderTemplate")
		}
		e.P("/-- av/format/flv/flv.go: flvHeaderTemplate -/")
		e.P("def flvHeaderTemplate : List Nat := [%s]", strings.Join(tmpl, ", "))
		// metadata names
		for _, n := range []string{"ScriptOnMetaData", "MetaDataAudioCodecID", "MetaDataAudioDateRate", "MetaDataAudioSampleRate",
			"MetaDataAudioSampleSize", "MetaDataStereo", "MetaDataCreationDate", "MetaDataFrameRate", "MetaDataHeight",
			"MetaDataVideoCodecID", "MetaDataVideoDataRate", "MetaDataWidth"} {
			s, ok := stringConst(sdgo, n)
			if !ok {
				e.Unknown(n)
			}
			e.P("def str%s : String := %s", n, LeanStr(s))
		}

		// ---------- flv.go: NewWriter ----------
		nw := FuncDecl(flvgo, "", "NewWriter")
		guard, flagsExpr := "", ""
		var nwCalls []string
		if nw != nil {
			for _, s := range nw.Body.List {
				if is, ok := s.(*ast.IfStmt); ok && is.Init == nil && guard == "" {
					guard = stmtShape(is)
				}
			}
			for _, r := range localDefs(nw, "flvHeader[TypeFlagsOffset]") {
				flagsExpr = r
			}
			ast.Inspect(nw, func(n ast.Node) bool {
				if c, ok := n.(*ast.CallExpr); ok {
					f := src1(c.Fun)
					if f == "copy" || f == "w.Write" || f == "writer.writeTagSize" {
						nwCalls = append(nwCalls, src1(c))
					}
				}
				return true
			})
		} else {
			e.Unknown("NewWriter")
		}
		e.P("/-- NewWriter: the guard rejecting type flags without a stream bit -/")
		e.P("def newWriterGuard : String := %s", LeanStr(guard))
		e.P("def newWriterFlagsExpr : String := %s", LeanStr(flagsExpr))
		e.P("/-- NewWriter: template copy, header write, PreviousTagSize0 — in source order -/")
		e.P("def newWriterCalls : List String := %s", LeanStrList(nwCalls))

		// ---------- flv.go: Writer.WriteFlvTag ----------
		wft := FuncDecl(flvgo, "Writer", "WriteFlvTag")
		firstGuard, clampGuard, clampBody, deltaArg, sizeArg := "", "", "", "", ""
		var wftShape []string
		if wft != nil {
			wftShape = shapes(wft.Body.List)
			for _, s := range wft.Body.List {
				is, ok := s.(*ast.IfStmt)
				if !ok {
					continue
				}
				// the first-tag guard is the `if` that stores tag.Timestamp into w.timestampDelta
				for _, b := range is.Body.List {
					if src1(b) == "w.timestampDelta = tag.Timestamp" {
						firstGuard = src1(is.Cond)
					}
				}
				// the clamp: `if int32(...) < 0 { timestampDelta = tag.Timestamp }`
				if strings.HasPrefix(src1(is.Cond), "int32(") && len(is.Body.List) == 1 && is.Else == nil {
					clampGuard, clampBody = src1(is.Cond), src1(is.Body.List[0])
				}
			}
			ast.Inspect(wft, func(n ast.Node) bool {
				if c, ok := n.(*ast.CallExpr); ok {
					if src1(c.Fun) == "writeTag" && len(c.Args) == 3 {
						deltaArg = src1(c.Args[2])
					}
					if src1(c.Fun) == "w.writeTagSize" && len(c.Args) == 1 {
						sizeArg = src1(c.Args[0])
					}
				}
				return true
			})
		} else {
			e.Unknown("Writer.WriteFlvTag")
		}
		sentinel, okS := false, true
		switch firstGuard {
		case "w.timestampDelta == uninitializedTimestampDelta":
			sentinel = true
			if v, ok := newEnv(flvgo).vals["uninitializedTimestampDelta"]; !ok || v != 0xffffffff {
				e.Unknown("uninitializedTimestampDelta")
			}
		case "!w.started":
			sentinel = false
		default:
			okS = false
		}
		if !okS {
			e.Unknown("WriteFlvTag first-tag guard: " + firstGuard)
		}
		clamp, okC := false, true
		switch {
		case clampGuard == "" && deltaArg == "w.timestampDelta":
			clamp = false
		case clampGuard == "int32(tag.Timestamp-timestampDelta) < 0" && clampBody == "timestampDelta = tag.Timestamp" && deltaArg == "timestampDelta":
			clamp = true
			if d := localDefs(wft, "timestampDelta"); len(d) != 2 || d[0] != "w.timestampDelta" {
				okC = false
			}
		default:
			okC = false
		}
		if !okC {
			e.Unknown("WriteFlvTag clamp: " + clampGuard + " / " + clampBody + " / " + deltaArg)
		}
		e.P("/-- Writer.WriteFlvTag: \"first tag\" recognised by the sentinel value of timestampDelta (true) or a flag (false) -/")
		e.P("def writerSentinelInit : Bool := %s", LeanBool(sentinel))
		e.P("def writerFirstGuard : String := %s", LeanStr(firstGuard))
		e.P("/-- Writer.WriteFlvTag: a tag older than the first (signed difference < 0) is rebased to 0 -/")
		e.P("def writerClampOlder : Bool := %s", LeanBool(clamp))
		e.P("def writerClampGuard : String := %s", LeanStr(clampGuard))
		e.P("def writerTagSizeArg : String := %s", LeanStr(sizeArg))
		e.P("def writeFlvTagShape : List String := %s", LeanStrList(wftShape))

		// ---------- tag.go: writeTag ----------
		wt := FuncDecl(taggo, "", "writeTag")
		var wtShape []string
		if wt != nil {
			wtShape = shapes(wt.Body.List)
		} else {
			e.Unknown("writeTag")
		}
		e.P("/-- tag.go writeTag: the statements, in source order -/")
		e.P("def writeTagShape : List String := %s", LeanStrList(wtShape))

		// ---------- packetizers ----------
		for _, p := range []struct {
			f          *ast.File
			recv, lean string
		}{{h264p, "h264Packetizer", "h264"}, {h265p, "h265Packetizer", "h265"}, {aacp, "aacPacketizer", "aac"}} {
			pk := FuncDecl(p.f, p.recv, "Packetize")
			sh := FuncDecl(p.f, p.recv, "PacketizeSequenceHeader")
			ts, ok1 := litField(pk, "&Tag", "Timestamp")
			tt, ok2 := litField(pk, "&Tag", "TagType")
			sts, ok3 := litField(sh, "&Tag", "Timestamp")
			stt, ok4 := litField(sh, "&Tag", "TagType")
			if !(ok1 && ok2 && ok3 && ok4) {
				e.Unknown(p.recv + " tag literal")
			}
			e.P("def %sTagTimestamp : String := %s", p.lean, LeanStr(ts))
			e.P("def %sTagType : String := %s", p.lean, LeanStr(tt))
			e.P("def %sSeqTagTimestamp : String := %s", p.lean, LeanStr(sts))
			e.P("def %sSeqTagType : String := %s", p.lean, LeanStr(stt))
			e.P("def %sDts : List String := %s", p.lean, LeanStrList(localDefs(pk, "dts")))
			e.P("def %sPts : List String := %s", p.lean, LeanStrList(localDefs(pk, "pts")))
			if p.lean != "aac" {
				var fields []string
				for _, fn := range []string{"FrameType", "CodecID", "H2645PacketType", "CompositionTime", "Body"} {
					v, ok := litField(pk, "&VideoData", fn)
					if !ok {
						e.Unknown(p.recv + ".Packetize VideoData." + fn)
					}
					fields = append(fields, fn+": "+v)
				}
				e.P("def %sVideoData : List String := %s", p.lean, LeanStrList(fields))
				var sfields []string
				for _, fn := range []string{"FrameType", "CodecID", "H2645PacketType", "CompositionTime", "Body"} {
					v, ok := litField(sh, "&VideoData", fn)
					if !ok {
						e.Unknown(p.recv + ".PacketizeSequenceHeader VideoData." + fn)
					}
					sfields = append(sfields, fn+": "+v)
				}
				e.P("def %sSeqVideoData : List String := %s", p.lean, LeanStrList(sfields))
				// the key-frame condition: the `if` whose body sets videoData.FrameType = FrameTypeKeyFrame
				cond := ""
				if pk != nil {
					ast.Inspect(pk, func(n ast.Node) bool {
						if is, ok := n.(*ast.IfStmt); ok && len(is.Body.List) == 1 && src1(is.Body.List[0]) == "videoData.FrameType = FrameTypeKeyFrame" {
							cond = src1(is.Cond)
						}
						return true
					})
				}
				if cond == "" {
					e.Unknown(p.recv + " key-frame condition")
				}
				e.P("def %sKeyCond : String := %s", p.lean, LeanStr(cond))
				e.P("def %sNalType : List String := %s", p.lean, LeanStrList(localDefs(pk, "nalType")))
				e.P("def %sRecord : List String := %s", p.lean, LeanStrList(localDefs(sh, "record")))
			}
		}
		// aac: the sequence header body and the raw body
		{
			sh := FuncDecl(aacp, "aacPacketizer", "PacketizeSequenceHeader")
			pk := FuncDecl(aacp, "aacPacketizer", "Packetize")
			e.P("def aacSeqBody : List String := %s", LeanStrList(localDefs(sh, "audioData.Body")))
			e.P("def aacSeqPacketType : List String := %s", LeanStrList(localDefs(sh, "audioData.AACPacketType")))
			e.P("def aacRawBody : List String := %s", LeanStrList(localDefs(pk, "audioData.Body")))
			tf, ok := litField(FuncDecl(aacp, "aacPacketizer", "prepareTemplate"), "&AudioData", "AACPacketType")
			sf, ok2 := litField(FuncDecl(aacp, "aacPacketizer", "prepareTemplate"), "&AudioData", "SoundFormat")
			if !ok || !ok2 {
				e.Unknown("aacPacketizer.prepareTemplate template")
			}
			e.P("def aacTemplate : List String := %s", LeanStrList([]string{"SoundFormat: " + sf, "AACPacketType: " + tf}))
		}

		// ---------- muxer.go ----------
		nm := FuncDecl(muxgo, "", "NewMuxer")
		tf0, _ := litField(nm, "&Muxer", "typeFlags")
		var nmAudio []string
		if nm != nil {
			ast.Inspect(nm, func(n ast.Node) bool {
				if is, ok := n.(*ast.IfStmt); ok && strings.Contains(src1(is.Cond), "audioMeta.Codec") {
					nmAudio = append(nmAudio, "if "+src1(is.Cond))
					nmAudio = append(nmAudio, shapes(is.Body.List)...)
				}
				return true
			})
		} else {
			e.Unknown("NewMuxer")
		}
		e.P("def newMuxerTypeFlags : String := %s", LeanStr(tf0))
		e.P("def newMuxerAudio : List String := %s", LeanStrList(nmAudio))

		proc := FuncDecl(muxgo, "Muxer", "process")
		var loop, seqBlock, cases []string
		loopCond := ""
		if proc != nil {
			for _, s := range proc.Body.List {
				fs, ok := s.(*ast.ForStmt)
				if !ok {
					continue
				}
				loopCond = src1(fs.Cond)
				loop = shapes(fs.Body.List)
				for _, b := range fs.Body.List {
					if is, ok := b.(*ast.IfStmt); ok && src1(is.Cond) == "!packSequenceHeader" {
						seqBlock = shapes(is.Body.List)
					}
					if sw, ok := b.(*ast.SwitchStmt); ok {
						for _, c := range sw.Body.List {
							cc := c.(*ast.CaseClause)
							lbl := "default"
							if len(cc.List) > 0 {
								lbl = "case " + src1(cc.List[0])
							}
							call := ""
							ast.Inspect(cc, func(n ast.Node) bool {
								if ce, ok := n.(*ast.CallExpr); ok && strings.HasSuffix(src1(ce.Fun), ".Packetize") {
									call = src1(ce)
								}
								return true
							})
							cases = append(cases, lbl+": "+call)
						}
					}
				}
			}
		}
		if loop == nil || seqBlock == nil {
			e.Unknown("Muxer.process loop")
		}
		gate := false
		switch {
		case len(seqBlock) == 4 && seqBlock[0] == "muxer.muxMetadataTag()":
			gate = false
		case len(seqBlock) == 5 && seqBlock[0] == "if !muxer.videoMetaReady() continue":
			gate = true
		default:
			e.Unknown("Muxer.process sequence-header block")
		}
		e.P("/-- Muxer.process: the statements of the worker loop, in source order -/")
		e.P("def muxLoopCond : String := %s", LeanStr(loopCond))
		e.P("def muxLoop : List String := %s", LeanStrList(loop))
		e.P("/-- Muxer.process: the block executed while packSequenceHeader is false -/")
		e.P("def muxSeqBlock : List String := %s", LeanStrList(seqBlock))
		e.P("def muxSwitch : List String := %s", LeanStrList(cases))
		e.P("/-- Muxer.process drops frames until a video frame with usable parameter sets arrives -/")
		e.P("def muxGateParamSets : Bool := %s", LeanBool(gate))
		vmr := FuncDecl(muxgo, "Muxer", "videoMetaReady")
		var vmrShape []string
		if vmr != nil {
			vmrShape = shapes(vmr.Body.List)
		} else if gate {
			e.Unknown("Muxer.videoMetaReady")
		}
		e.P("def videoMetaReadyShape : List String := %s", LeanStrList(vmrShape))
		// … and the statements of its H.265 branch
		var vmrHevc []string
		if vmr != nil {
			for _, st := range vmr.Body.List {
				if is, ok := st.(*ast.IfStmt); ok && src1(is.Cond) == "vm.Codec == \"H265\"" {
					vmrHevc = shapes(is.Body.List)
				}
			}
		}
		e.P("def videoMetaReadyHevc : List String := %s", LeanStrList(vmrHevc))

		// ---------- the marshalling code, statement by statement ----------
		amfprim := Parse("av/format/amf/primitive.go")
		amfobj := Parse("av/format/amf/object.go")
		for _, m := range []struct {
			lean string
			f    *ast.File
			recv string
			fn   string
		}{
			{"marshalVideoData", vdgo, "VideoData", "Marshal"}, {"marshalVideoDataSize", vdgo, "VideoData", "MarshalSize"},
			{"marshalAudioData", adgo, "AudioData", "Marshal"}, {"marshalAudioDataSize", adgo, "AudioData", "MarshalSize"},
			{"marshalScriptData", sdgo, "ScriptData", "Marshal"},
			{"newAvcRecord", vdgo, "", "NewAVCDecoderConfigurationRecord"},
			{"marshalAvcRecord", vdgo, "AVCDecoderConfigurationRecord", "Marshal"}, {"marshalAvcRecordSize", vdgo, "AVCDecoderConfigurationRecord", "MarshalSize"},
			{"newHevcRecord", vdgo, "", "NewHEVCDecoderConfigurationRecord"},
			{"hevcRecordInit", vdgo, "HEVCDecoderConfigurationRecord", "init"}, {"hevcRecordApplyPLT", vdgo, "HEVCDecoderConfigurationRecord", "applyPLT"},
			{"marshalHevcRecord", vdgo, "HEVCDecoderConfigurationRecord", "Marshal"}, {"marshalHevcRecordSize", vdgo, "HEVCDecoderConfigurationRecord", "MarshalSize"},
			{"amfWriteAny", amfany, "", "WriteAny"}, {"amfWriteEcmaArray", amfobj, "", "WriteEcmaArray"},
			{"amfWriteBool", amfprim, "", "WriteBool"}, {"amfWriteNumber", amfprim, "", "WriteNumber"},
			{"amfWriteString", amfprim, "", "WriteString"}, {"amfWriteLongString", amfprim, "", "WriteLongString"},
			{"amfWriteType", amfprim, "", "writeType"}, {"amfWriteUtf8", amfprim, "", "writeUtf8"},
			{"tagSize", taggo, "Tag", "Size"},
		} {
			fd := FuncDecl(m.f, m.recv, m.fn)
			if fd == nil {
				e.Unknown(m.recv + "." + m.fn)
			}
			e.P("/-- %s.%s: every statement, in source order -/", m.recv, m.fn)
			e.P("def %s : List String := %s", m.lean, LeanStrList(flatStmts(fd)))
		}

		// ---------- media/cache/flvcache.go: the time stamp of the replayed headers ----------
		fcgo := Parse("media/cache/flvcache.go")
		pushTo := FuncDecl(fcgo, "FlvCache", "PushTo")
		cachePack := FuncDecl(fcgo, "FlvCache", "CachePack")
		initDefs := localDefs(pushTo, "initTimestamp")
		lastDefs := localDefs(cachePack, "cache.lastTimestamp")
		var packShape []string
		if cachePack != nil {
			packShape = shapes(cachePack.Body.List)
		} else {
			e.Unknown("FlvCache.CachePack")
		}
		if pushTo == nil {
			e.Unknown("FlvCache.PushTo")
		}
		stampNow := len(initDefs) == 2 && initDefs[0] == "cache.lastTimestamp" && initDefs[1] == "tag.Timestamp" &&
			len(lastDefs) == 1 && lastDefs[0] == "tag.Timestamp"
		if !stampNow && !(len(initDefs) == 2 && initDefs[0] == "uint32(0)" && initDefs[1] == "tag.Timestamp" && len(lastDefs) == 0) {
			e.Unknown("FlvCache.PushTo initTimestamp: " + strings.Join(initDefs, " / ") + " ; lastTimestamp: " + strings.Join(lastDefs, " / "))
		}
		e.P("/-- media/cache/flvcache.go: FlvCache.PushTo — the definitions of initTimestamp, in order -/")
		e.P("def flvCacheInitDefs : List String := %s", LeanStrList(initDefs))
		e.P("/-- FlvCache.CachePack — the values assigned to cache.lastTimestamp -/")
		e.P("def flvCacheLastDefs : List String := %s", LeanStrList(lastDefs))
		e.P("/-- FlvCache.CachePack — the statements, in source order -/")
		e.P("def flvCachePackShape : List String := %s", LeanStrList(packShape))
		// the three header blocks of PushTo: a private copy is stamped and queued
		var pushHeaders []string
		if pushTo != nil {
			for _, st := range pushTo.Body.List {
				if is, ok := st.(*ast.IfStmt); ok && strings.HasPrefix(src1(is.Cond), "nil != cache.") {
					pushHeaders = append(pushHeaders, src1(is.Cond))
					pushHeaders = append(pushHeaders, shapes(is.Body.List)...)
				}
			}
		}
		e.P("/-- FlvCache.PushTo — the three header blocks: condition, then the statements -/")
		e.P("def flvCachePushHeaders : List String := %s", LeanStrList(pushHeaders))
		e.P("/-- PushTo stamps the replayed headers with the latest media tag's timestamp when no GOP is cached -/")
		e.P("def cacheStampNow : Bool := %s", LeanBool(stampNow))

		// ---------- service/flv: the client ends ----------
		for _, sv := range []struct{ file, fn, recv, lean string }{
			{"service/flv/httpflv.go", "ConsumeByHTTP", "httpFlvConsumer", "http"},
			{"service/flv/wsflv.go", "ConsumeByWebsocket", "wsFlvConsumer", "ws"},
		} {
			f := Parse(sv.file)
			fn := FuncDecl(f, "", sv.fn)
			cons := FuncDecl(f, sv.recv, "Consume")
			newWriter, startConsume, write := "", "", ""
			if fn != nil {
				ast.Inspect(fn, func(n ast.Node) bool {
					if c, ok := n.(*ast.CallExpr); ok {
						switch src1(c.Fun) {
						case "flv.NewWriter":
							newWriter = src1(c)
						case "stream.StartConsume":
							startConsume = src1(c.Fun) + "(" + src1(c.Args[0]) + ", " + src1(c.Args[1]) + ", ...)"
						}
					}
					return true
				})
			}
			if cons != nil {
				ast.Inspect(cons, func(n ast.Node) bool {
					if c, ok := n.(*ast.CallExpr); ok && strings.HasSuffix(src1(c.Fun), ".WriteFlvTag") {
						write = src1(c)
					}
					return true
				})
			}
			if fn == nil || cons == nil {
				e.Unknown(sv.fn)
			}
			e.P("/-- %s: where the type flags come from, the writer, the registration, the per-tag write -/", sv.file)
			e.P("def %sTypeFlags : List String := %s", sv.lean, LeanStrList(localDefs(fn, "typeFlags")))
			e.P("def %sNewWriter : String := %s", sv.lean, LeanStr(newWriter))
			e.P("def %sStartConsume : String := %s", sv.lean, LeanStr(startConsume))
			e.P("def %sConsumeWrite : String := %s", sv.lean, LeanStr(write))
		}

		// muxMetadataTag: property names in source order, with the audio block marked
		mm := FuncDecl(muxgo, "Muxer", "muxMetadataTag")
		var props []string
		if mm != nil {
			var walk func(l []ast.Stmt, pre string)
			walk = func(l []ast.Stmt, pre string) {
				for _, s := range l {
					if is, ok := s.(*ast.IfStmt); ok {
						c := src1(is.Cond)
						if strings.Contains(c, "TypeFlagsAudio") {
							walk(is.Body.List, "audio:")
						}
						continue
					}
					ast.Inspect(s, func(n ast.Node) bool {
						if cl, ok := n.(*ast.CompositeLit); ok && src1(cl.Type) == "amf.ObjectProperty" {
							nm, vl := "", ""
							for _, el := range cl.Elts {
								if kv, ok := el.(*ast.KeyValueExpr); ok {
									if src1(kv.Key) == "Name" {
										nm = src1(kv.Value)
									} else if src1(kv.Key) == "Value" {
										vl = src1(kv.Value)
									}
								}
							}
							props = append(props, pre+nm+"="+vl)
						}
						return true
					})
				}
			}
			walk(mm.Body.List, "")
		} else {
			e.Unknown("muxMetadataTag")
		}
		e.P("/-- muxMetadataTag: the properties appended, in source order (audio: = inside the TypeFlagsAudio block) -/")
		e.P("def metadataPropsSrc : List String := %s", LeanStrList(props))
		mts, _ := litField(mm, "&Tag", "Timestamp")
		mtt, _ := litField(mm, "&Tag", "TagType")
		e.P("def metadataTag : List String := %s", LeanStrList([]string{"TagType: " + mtt, "Timestamp: " + mts}))
		vc := localDefs(mm, "vcodecID")
		e.P("def metadataVCodec : List String := %s", LeanStrList(vc))
	})
}
