#!/usr/bin/env python3
"""Rewrites lean/IpcHub/Model/AuthExpect.lean from the freshly generated lean/IpcHub/Gen/C11Facts.lean.
Run ONLY after re-reading the changed source function and re-validating the model (./check C11 must be
green apart from c11_source_facts): the snapshot is what `c11_source_facts` and the model flags compare with."""
import os
L = os.path.join(os.path.dirname(os.path.abspath(__file__)), "..", "..", "..", "lean", "IpcHub")
src = open(os.path.join(L, "Gen", "C11Facts.lean")).read()
body = src.split("namespace IpcHub.Gen\n", 1)[1].rsplit("end IpcHub.Gen", 1)[0]
hdr = '''/-
REVIEWED SNAPSHOT of the facts of Gen/C11Facts.lean for the source tree the C11 model mirrors
(after the `fix:` commits listed in known_findings.d/C11.json).  The model's configuration flags
(Model/AuthInst.lean) and the obligation `c11_source_facts` (Props/C11.lean) compare the facts
regenerated on every run with these.  Rewritten by harness/tr/c11/snapshot.py, only after the
changed function was re-read and the model re-validated against it.
-/
namespace IpcHub.Auth.Expected
'''
open(os.path.join(L, "Model", "AuthExpect.lean"), "w").write(hdr + body + "end IpcHub.Auth.Expected\n")
