// Translator for property C11: re-extracts from the current source tree the guards, call
// orders, constants and tables the authorization theorems are stated over.
//
// For every tracked function a "skeleton" is emitted: the nesting of if / switch / for
// statements that guard tracked items, the conditions, the tracked calls, the tracked
// assignments and the returns, in source order.  Untracked statements (logging, response
// formatting, statistics) are ignored, so that only changes to the decision logic change the
// generated file.  Props/C11.lean pins every skeleton (`c11_source_facts`), and the model's
// configuration flags are computed from them.
package main

import (
	"go/ast"
	"go/token"
	"regexp"
	"sort"
	"strconv"
	"strings"

	. "verifharness/tlib"
)

func main() { Main() }

type filter struct {
	conds *regexp.Regexp // an if / switch whose condition matches is emitted even if its body is empty of tracked items
	calls *regexp.Regexp // call expressions (source of Fun) that are tracked
	sets  *regexp.Regexp // assignment left-hand sides that are tracked
}

// norm collapses white space; non-ASCII runes are written as <U+XXXX> (tlib.LeanStr's \u{..}
// escape is not Lean syntax)
func norm(s string) string {
	var b strings.Builder
	for _, r := range strings.Join(strings.Fields(s), " ") {
		if r < 32 || r > 126 {
			b.WriteString("<U+" + strconv.FormatInt(int64(r), 16) + ">")
		} else {
			b.WriteRune(r)
		}
	}
	return b.String()
}

type skel struct {
	f   *filter
	out []string
}

func (k *skel) callsIn(n ast.Node) []string {
	var res []string
	if n == nil {
		return nil
	}
	ast.Inspect(n, func(x ast.Node) bool {
		if _, isLit := x.(*ast.FuncLit); isLit {
			return false
		}
		if c, ok := x.(*ast.CallExpr); ok && k.f.calls != nil && k.f.calls.MatchString(norm(Src(c.Fun))) {
			res = append(res, "call "+norm(Src(c)))
		}
		return true
	})
	return res
}

func (k *skel) emitBlock(open string, body func()) {
	mark := len(k.out)
	k.out = append(k.out, open)
	n := len(k.out)
	body()
	if len(k.out) == n && !k.keepEmpty(open) {
		k.out = k.out[:mark]
		return
	}
	k.out = append(k.out, "}")
}

func (k *skel) keepEmpty(open string) bool {
	return k.f.conds != nil && k.f.conds.MatchString(open)
}

func (k *skel) stmts(list []ast.Stmt) {
	for _, s := range list {
		k.stmt(s)
	}
}

func (k *skel) stmt(s ast.Stmt) {
	switch x := s.(type) {
	case *ast.IfStmt:
		if x.Init != nil {
			k.stmt(x.Init)
		}
		k.emitIf(x)
	case *ast.BlockStmt:
		k.stmts(x.List)
	case *ast.SwitchStmt:
		tag := ""
		if x.Tag != nil {
			tag = norm(Src(x.Tag))
		}
		k.emitBlock("switch "+tag+" {", func() {
			for _, c := range x.Body.List {
				cc := c.(*ast.CaseClause)
				var es []string
				for _, e := range cc.List {
					es = append(es, norm(Src(e)))
				}
				lab := "default:"
				if len(es) > 0 {
					lab = "case " + strings.Join(es, ", ") + ":"
				}
				mark := len(k.out)
				k.out = append(k.out, lab)
				n := len(k.out)
				k.stmts(cc.Body)
				if len(k.out) == n && !k.keepEmpty("switch "+tag) {
					k.out = k.out[:mark]
				}
			}
		})
	case *ast.ForStmt:
		k.emitBlock("for {", func() { k.stmts(x.Body.List) })
	case *ast.RangeStmt:
		k.emitBlock("range "+norm(Src(x.X))+" {", func() { k.stmts(x.Body.List) })
	case *ast.ReturnStmt:
		var rs []string
		for _, r := range x.Results {
			rs = append(rs, norm(Src(r)))
			k.out = append(k.out, k.callsIn(r)...)
		}
		k.out = append(k.out, norm("return "+strings.Join(rs, ", ")))
	case *ast.AssignStmt:
		for _, r := range x.Rhs {
			k.out = append(k.out, k.callsIn(r)...)
		}
		for i, l := range x.Lhs {
			if k.f.sets != nil && k.f.sets.MatchString(norm(Src(l))) {
				rhs := ""
				if len(x.Rhs) == len(x.Lhs) {
					rhs = norm(Src(x.Rhs[i]))
				} else if len(x.Rhs) == 1 {
					rhs = norm(Src(x.Rhs[0]))
				}
				k.out = append(k.out, "set "+norm(Src(l))+" "+x.Tok.String()+" "+rhs)
			}
		}
	case *ast.ExprStmt:
		k.out = append(k.out, k.callsIn(x.X)...)
		if c, ok := x.X.(*ast.CallExpr); ok {
			for _, a := range c.Args {
				if fl, ok := a.(*ast.FuncLit); ok {
					k.emitBlock("func "+norm(Src(c.Fun))+" {", func() { k.stmts(fl.Body.List) })
				}
			}
		}
	case *ast.DeferStmt:
		for _, c := range k.callsIn(x.Call) {
			k.out = append(k.out, "defer "+c)
		}
	case *ast.GoStmt:
		for _, c := range k.callsIn(x.Call) {
			k.out = append(k.out, "go "+c)
		}
	case *ast.DeclStmt:
		if g, ok := x.Decl.(*ast.GenDecl); ok && g.Tok == token.VAR {
			for _, sp := range g.Specs {
				if vs, ok := sp.(*ast.ValueSpec); ok {
					for _, v := range vs.Values {
						k.out = append(k.out, k.callsIn(v)...)
					}
				}
			}
		}
	case *ast.LabeledStmt:
		k.stmt(x.Stmt)
	}
}

func (k *skel) emitIf(x *ast.IfStmt) {
	cond := norm(Src(x.Cond))
	mark := len(k.out)
	k.out = append(k.out, k.callsIn(x.Cond)...)
	k.out = append(k.out, "if "+cond+" {")
	n := len(k.out)
	k.stmts(x.Body.List)
	bodyEmpty := len(k.out) == n || onlyReturns(k.out[n:])
	elseEmpty := true
	if x.Else != nil {
		k.out = append(k.out, "} else {")
		m := len(k.out)
		k.stmt(x.Else)
		elseEmpty = len(k.out) == m || onlyReturns(k.out[m:])
		if len(k.out) == m {
			k.out = k.out[:m-1]
		}
	}
	tracked := k.f.conds != nil && k.f.conds.MatchString(cond)
	if bodyEmpty && elseEmpty && !tracked {
		k.out = k.out[:mark]
		return
	}
	k.out = append(k.out, "}")
}

func onlyReturns(ss []string) bool {
	for _, s := range ss {
		if !strings.HasPrefix(s, "return") {
			return false
		}
	}
	return true
}

type tracked struct {
	name, file, recv, fn string
	f                    filter
}

func re(s string) *regexp.Regexp {
	if s == "" {
		return nil
	}
	return regexp.MustCompile(s)
}

var trackedFuncs = []tracked{
	// provider/auth
	{"userInit", "provider/auth/user.go", "User", "init", filter{re(`Admin|Access`), re(`^initMatchers$`), re(`Matchers|Access|^u\.Name$`)}},
	{"userCopyFrom", "provider/auth/user.go", "User", "CopyFrom", filter{re(`withPassword`), re(`^u\.init$`), re(`^u\.`)}},
	{"userValidatePermission", "provider/auth/user.go", "User", "ValidatePermission", filter{re(`.`), re(`Match$|TrimSpace`), re(`matchers|^path$`)}},
	{"userValidatePassword", "provider/auth/user.go", "User", "ValidatePassword", filter{re(`.`), re(`EqualFold|passwordNeedMD5|PasswordMD5`), nil}},
	{"managerGet", "provider/auth/manager.go", "manager", "Get", filter{re(`.`), re(`ToLower|Lock$`), re(`userName`)}},
	{"managerSave", "provider/auth/manager.go", "manager", "Save", filter{re(`^ok$|err`), re(`\.init$|CopyFrom|Lock$`), re(`^u$|^u, ok$|m\.m\[`)}},
	{"managerDel", "provider/auth/manager.go", "manager", "Del", filter{re(`^ok$`), re(`ToLower|^delete$|Lock$`), re(`userName`)}},
	{"tokenNew", "provider/auth/token.go", "TokenManager", "NewToken", filter{re(`.`), re(`Store$`), nil}},
	{"tokenRefresh", "provider/auth/token.go", "TokenManager", "Refresh", filter{re(`.`), re(`Load$|Delete$|NewToken$`), re(`username`)}},
	{"tokenAccessCheck", "provider/auth/token.go", "TokenManager", "AccessCheck", filter{re(`.`), re(`Load$|Delete$`), nil}},
	{"tokenExpCheck", "provider/auth/token.go", "TokenManager", "ExpCheck", filter{re(`.`), re(`Delete$`), nil}},
	{"newSecret", "provider/security/id.go", "", "NewSecret", filter{re(`.`), re(`rand\.|EncodeToString`), nil}},
	{"canonicalPathLoop", "utils/path.go", "", "CanonicalPath", filter{re(`.`), re(`canonicalPath`), re(`^np$|^p$|^p, np$`)}},
	{"canonicalPathOnce", "utils/path.go", "", "canonicalPath", filter{re(`.`), re(`ToLower|TrimSpace|path\.Clean|HasPrefix`), re(`^np$|^p$`)}},
	// service (HTTP)
	{"streamInterceptor", "service/streamapis.go", "Service", "streamInterceptor", filter{re(`.`), re(`Auth$|Interceptor$|path\.Base`), nil}},
	{"permissionInterceptor", "service/streamapis.go", "", "permissionInterceptor", filter{re(`.`), re(`auth\.Get|extractStreamPathAndExt|ValidatePermission|CanonicalPath|LastIndex|Header\.Get|http\.Error`), re(`streamPath|userName|^u$`)}},
	{"extractStreamPathAndExt", "service/streamapis.go", "", "extractStreamPathAndExt", filter{nil, re(`path\.Ext|Scan$`), re(`streamPath|ext`)}},
	{"onStreamsRequest", "service/streamapis.go", "Service", "onStreamsRequest", filter{re(`.`), re(`onWebSocketRequest|extractStreamPathAndExt|ConsumeByHTTP|GetM3u8|GetTS|NotFound`), re(`streamPath|token`)}},
	{"onWebSocketRequest", "service/streamapis.go", "Service", "onWebSocketRequest", filter{re(`.`), re(`TryUpgrade|OnAccept|ConsumeByWebsocket|extractStreamPathAndExt|Header\.Get|Close$`), re(`username|streamPath`)}},
	{"authInterceptor", "service/apis.go", "Service", "authInterceptor", filter{re(`.`), re(`AccessCheck|Header\.\w+$|http\.Error|Query\(\)\.Get`), re(`token|username`)}},
	{"roleInterceptor", "service/apis.go", "", "roleInterceptor", filter{re(`.`), re(`auth\.Get|Header\.Get|http\.Error`), re(`userName|^u$`)}},
	{"onLogin", "service/apis.go", "Service", "onLogin", filter{re(`Username|Password|u == nil`), re(`auth\.Get|ValidatePassword|NewToken`), re(`^u$|token`)}},
	{"onRefreshToken", "service/apis.go", "Service", "onRefreshToken", filter{re(`token`), re(`Refresh$|Query\(\)\.Get`), re(`token`)}},
	// service/hls, service/flv
	{"hlsGetTS", "service/hls/hls.go", "", "GetTS", filter{re(`i < 0|err != nil|c == nil|s != nil`), re(`LastIndex|Atoi|GetOrCreate|Hlsable|Segment$`), re(`streamPath|seqStr|^i$`)}},
	{"hlsGetM3u8", "service/hls/hls.go", "", "GetM3u8", filter{re(`c == nil|s != nil`), re(`GetOrCreate|Hlsable|M3u8$`), nil}},
	{"flvConsumeByHTTP", "service/flv/httpflv.go", "", "ConsumeByHTTP", filter{re(`stream == nil|typeFlags == 0`), re(`GetOrCreate|StartConsume`), nil}},
	{"flvConsumeByWebsocket", "service/flv/wsflv.go", "", "ConsumeByWebsocket", filter{re(`stream == nil|typeFlags == 0`), re(`GetOrCreate|StartConsume`), nil}},
	// service/rtsp
	{"rtspNewSessionWs", "service/rtsp/session.go", "", "newSession", filter{re(`websocket\.Conn`), re(`auth\.Get|RtspAuthMode|NewSecret|NewID`), re(`authMode|\.path$|\.user$|nonce`)}},
	{"rtspCheckPermission", "service/rtsp/session.go", "Session", "checkPermission", filter{re(`.`), re(`ValidatePermission|httpAuthed`), nil}},
	{"rtspHttpAuthed", "service/rtsp/session.go", "Session", "httpAuthed", filter{re(`.`), re(`config\.Auth`), nil}},
	{"rtspCheckAuth", "service/rtsp/session.go", "Session", "checkAuth", filter{re(`.`), re(`auth\.Get|DigestAuth$|BasicAuth$|formatDigestAuthResponse|ValidatePassword|httpAuthed|Username$|NewSecret|NewID`), re(`nonce|resp2`)}},
	{"rtspOnPreprocess", "service/rtsp/session.go", "Session", "onPreprocess", filter{re(`Method|continueProcess|err2|authMode`), re(`checkAuth|SetDigestAuth`), re(`continueProcess|s\.user|StatusCode`)}},
	{"rtspOnRequest", "service/rtsp/session.go", "Session", "onRequest", filter{re(`continueProcess|Method`), re(`onPreprocess|onDescribe|onAnnounce|onSetup|onRecord|onPlay`), nil}},
	{"rtspOnDescribe", "service/rtsp/session.go", "Session", "onDescribe", filter{re(`checkPermission|wsconn|stream == nil`), re(`checkPermission|GetOrCreate|CanonicalPath|\.Sdp$|parseSdp`), re(`s\.path|s\.mode|StatusCode`)}},
	{"rtspOnAnnounce", "service/rtsp/session.go", "Session", "onAnnounce", filter{re(`checkPermission|ContentType`), re(`checkPermission|CanonicalPath|parseSdp`), re(`s\.path|s\.mode|StatusCode`)}},
	{"rtspOnSetup", "service/rtsp/session.go", "Session", "onSetup", filter{re(`checkPermission|s\.mode|transport\.Type|s\.status`), re(`checkPermission|ParseTransport|GetOrCreate`), re(`s\.mode|s\.status|StatusCode`)}},
	{"rtspOnRecord", "service/rtsp/session.go", "Session", "onRecord", filter{re(`checkPermission|s\.mode|s\.status`), re(`checkPermission|asTCPPusher`), re(`s\.status|StatusCode`)}},
	{"rtspOnPlay", "service/rtsp/session.go", "Session", "onPlay", filter{re(`checkPermission|s\.mode|stream == nil`), re(`checkPermission|GetOrCreate|as\w+Consumer`), re(`StatusCode`)}},
	{"rtspAsTCPPusher", "service/rtsp/session_roles.go", "Session", "asTCPPusher", filter{nil, re(`NewStream|Regist$`), nil}},
	// service/wsp
	{"wspHandshakeData", "service/wsp/wsp.go", "Server", "handshakeDataChannel", filter{re(`^ok$|session == nil|acceptsDataChannel`), re(`Load$|setDataChannel|acceptsDataChannel`), re(`channelID|^code$|^session$`)}},
	{"wspAcceptsDataChannel", "service/wsp/session.go", "Session", "acceptsDataChannel", filter{re(`.`), re(`config\.Auth|Username$|Path$`), nil}},
	{"wspCheckPermission", "service/wsp/session.go", "Session", "checkPermission", filter{re(`.`), re(`config\.Auth|auth\.Get|ValidatePermission|Username$`), nil}},
	{"wspOnDescribe", "service/wsp/session.go", "Session", "onDescribe", filter{re(`checkPermission|stream == nil`), re(`checkPermission|GetOrCreate|\.Path$|\.Sdp$`), re(`s\.path|StatusCode`)}},
	{"wspOnPlay", "service/wsp/session.go", "Session", "onPlay", filter{re(`checkPermission|stream == nil|s\.status|s\.cid`), re(`checkPermission|GetOrCreate|StartConsume`), re(`StatusCode|s\.status`)}},
	{"wspOnPreprocess", "service/wsp/session.go", "Session", "onPreprocess", filter{re(`Method|continueProcess`), nil, re(`continueProcess|StatusCode`)}},
	{"wspOnRequest", "service/wsp/session.go", "Session", "onRequest", filter{re(`continueProcess|Method`), re(`onPreprocess|onDescribe|onSetup|onPlay|onPause`), re(`StatusCode`)}},
	{"wspNewSession", "service/wsp/session.go", "", "newSession", filter{nil, re(`Username$|Path$|NewID|NewSecret`), nil}},
}

func init() {
	Register("C11Facts", func(e *Emitter) {
		for _, t := range trackedFuncs {
			fd := FuncDecl(Parse(t.file), t.recv, t.fn)
			var lines []string
			if fd == nil || fd.Body == nil {
				lines = []string{"<absent>"}
			} else {
				k := &skel{f: &t.f}
				k.stmts(fd.Body.List)
				lines = k.out
			}
			e.P("/-- %s: %s.%s -/", t.file, t.recv, t.fn)
			e.P("def skel_%s : List String := %s", t.name, LeanStrList(lines))
		}
		// apis.go: the noAuthRequired table
		apis := Parse("service/apis.go")
		var keys []string
		if cl, ok := TopValue(apis, "noAuthRequired").(*ast.CompositeLit); ok {
			for _, el := range cl.Elts {
				kv, ok := el.(*ast.KeyValueExpr)
				if !ok {
					e.Unknown("noAuthRequired element")
					continue
				}
				ks, err := strconv.Unquote(Src(kv.Key))
				if err != nil || Src(kv.Value) != "true" {
					e.Unknown("noAuthRequired element")
					continue
				}
				keys = append(keys, ks)
			}
		} else {
			e.Unknown("noAuthRequired")
		}
		sort.Strings(keys)
		e.P("/-- service/apis.go: keys of `noAuthRequired` (sorted) -/")
		e.P("def noAuthRequired : List String := %s", LeanStrList(keys))
		// apis.go initApis: route table, interceptor chain, the mux closure
		var routes []string
		chain, gate := "", []string{}
		if fd := FuncDecl(apis, "Service", "initApis"); fd != nil {
			ast.Inspect(fd.Body, func(n ast.Node) bool {
				c, ok := n.(*ast.CallExpr)
				if !ok {
					return true
				}
				fn := Src(c.Fun)
				switch {
				case fn == "apirouter.GET" || fn == "apirouter.POST" || fn == "apirouter.DELETE" || fn == "apirouter.PUT" || fn == "apirouter.PATCH":
					if len(c.Args) == 2 {
						p, _ := strconv.Unquote(Src(c.Args[0]))
						routes = append(routes, strings.TrimPrefix(fn, "apirouter.")+" "+p+" "+Src(c.Args[1]))
					}
				case fn == "apirouter.ChainInterceptor":
					chain = norm(Src(c))
				case fn == "mux.HandleFunc":
					if len(c.Args) == 2 {
						if fl, ok := c.Args[1].(*ast.FuncLit); ok {
							k := &skel{f: &filter{re(`.`), re(`path\.Base|ToLower|PreHandle|ServeHTTP`), re(`^path$|^ok$`)}}
							k.stmts(fl.Body.List)
							gate = append([]string{"pattern " + Src(c.Args[0])}, k.out...)
						}
					}
				}
				return true
			})
		} else {
			e.Unknown("initApis")
		}
		e.P("/-- service/apis.go initApis: the API routes in source order -/")
		e.P("def apiRoutes : List String := %s", LeanStrList(routes))
		e.P("def apiInterceptorChain : String := %s", LeanStr(chain))
		e.P("def apiMuxHandler : List String := %s", LeanStrList(gate))
		// streamapis.go initHTTPStreams: which pattern gets which interceptor
		var smux []string
		if fd := FuncDecl(Parse("service/streamapis.go"), "Service", "initHTTPStreams"); fd != nil {
			for _, s := range fd.Body.List {
				if es, ok := s.(*ast.ExprStmt); ok {
					smux = append(smux, norm(Src(es.X)))
				}
			}
		} else {
			e.Unknown("initHTTPStreams")
		}
		e.P("def streamsMux : List String := %s", LeanStrList(smux))
		// apis.go roleInterceptor: the GET prefix that needs no administrator
		prefix := ""
		if fd := FuncDecl(apis, "", "roleInterceptor"); fd != nil {
			ast.Inspect(fd.Body, func(n ast.Node) bool {
				if c, ok := n.(*ast.CallExpr); ok && Src(c.Fun) == "strings.HasPrefix" && len(c.Args) == 2 && Src(c.Args[0]) == "r.URL.Path" {
					if v, err := strconv.Unquote(Src(c.Args[1])); err == nil {
						prefix = v
					}
				}
				return true
			})
		}
		if prefix == "" {
			e.Unknown("roleInterceptor exempt prefix")
		}
		e.P("def roleExemptPrefix : String := %s", LeanStr(prefix))
		// token.go: field initialisers of NewToken
		tok := Parse("provider/auth/token.go")
		fields := map[string]string{}
		if fd := FuncDecl(tok, "TokenManager", "NewToken"); fd != nil {
			ast.Inspect(fd.Body, func(n ast.Node) bool {
				if cl, ok := n.(*ast.CompositeLit); ok && Src(cl.Type) == "Token" {
					for _, el := range cl.Elts {
						if kv, ok := el.(*ast.KeyValueExpr); ok {
							fields[Src(kv.Key)] = norm(Src(kv.Value))
						}
					}
				}
				return true
			})
		}
		for _, f := range []string{"Username", "AToken", "AExp", "RToken", "RExp"} {
			if _, ok := fields[f]; !ok {
				e.Unknown("NewToken." + f)
			}
			e.P("def tokenField_%s : String := %s", f, LeanStr(fields[f]))
		}
		ttl := func(expr string) int {
			m := regexp.MustCompile(`^time\.Now\(\)\.Add\(time\.Hour \* time\.Duration\(([0-9* ]+)\)\)\.Unix\(\)$`).FindStringSubmatch(expr)
			if m == nil {
				return -1
			}
			p := 1
			for _, f := range strings.Split(m[1], "*") {
				v, err := strconv.Atoi(strings.TrimSpace(f))
				if err != nil {
					return -1
				}
				p *= v
			}
			return p * 3600
		}
		a, r := ttl(fields["AExp"]), ttl(fields["RExp"])
		if a < 0 {
			e.Unknown("access token life time")
			a = 0
		}
		if r < 0 {
			e.Unknown("refresh token life time")
			r = 0
		}
		e.P("/-- provider/auth/token.go: life times in seconds -/")
		e.P("def accessTTL : Int := %d", a)
		e.P("def refreshTTL : Int := %d", r)
		// security/id.go: which package `rand` is
		var imps []string
		if f := Parse("provider/security/id.go"); f != nil {
			for _, im := range f.Imports {
				p, _ := strconv.Unquote(im.Path.Value)
				if strings.HasSuffix(p, "rand") {
					n := ""
					if im.Name != nil {
						n = im.Name.Name + "="
					}
					imps = append(imps, n+p)
				}
			}
		}
		e.P("/-- provider/security/id.go: imported packages named rand -/")
		e.P("def securityRandImports : List String := %s", LeanStrList(imps))
		// rtsp: realm constant and the digest formula's inputs
		e.P("def rtspRealmExpr : String := %s", LeanStr(norm(Src(TopValue(Parse("service/rtsp/session.go"), "realm")))))
	})
}
