// Translator for C14: facts about the RTSP wire codec, re-extracted from /repo on every run.
package main

import (
	"fmt"
	"go/ast"
	"go/token"
	"strconv"
	"strings"

	. "verifharness/tlib"
)

func main() { Main() }

func evalInt(e ast.Expr, f *ast.File) (int64, bool) {
	switch v := e.(type) {
	case *ast.BasicLit:
		if v.Kind == token.INT {
			n, err := strconv.ParseInt(v.Value, 0, 64)
			return n, err == nil
		}
		if v.Kind == token.CHAR {
			s, err := strconv.Unquote(v.Value)
			if err == nil && len(s) == 1 {
				return int64(s[0]), true
			}
		}
	case *ast.ParenExpr:
		return evalInt(v.X, f)
	case *ast.CallExpr: // byte(0x24)
		if len(v.Args) == 1 && (Src(v.Fun) == "byte" || Src(v.Fun) == "int") {
			return evalInt(v.Args[0], f)
		}
	case *ast.Ident:
		if x := TopValue(f, v.Name); x != nil {
			return evalInt(x, f)
		}
	case *ast.BinaryExpr:
		a, ok1 := evalInt(v.X, f)
		b, ok2 := evalInt(v.Y, f)
		if ok1 && ok2 {
			switch v.Op {
			case token.MUL:
				return a * b, true
			case token.ADD:
				return a + b, true
			case token.SUB:
				return a - b, true
			case token.SHL:
				return a << uint(b), true
			}
		}
	}
	return 0, false
}

func strLit(e ast.Expr) (string, bool) {
	if l, ok := e.(*ast.BasicLit); ok && l.Kind == token.STRING {
		s, err := strconv.Unquote(l.Value)
		return s, err == nil
	}
	return "", false
}

// constGroup returns the (name, value-expr) pairs of const declarations, iota expanded by position
type cdecl struct {
	name string
	val  ast.Expr
	iota int
}

func consts(f *ast.File) []cdecl {
	var out []cdecl
	if f == nil {
		return out
	}
	for _, d := range f.Decls {
		g, ok := d.(*ast.GenDecl)
		if !ok || g.Tok != token.CONST {
			continue
		}
		var last ast.Expr
		for i, s := range g.Specs {
			vs := s.(*ast.ValueSpec)
			for j, n := range vs.Names {
				var v ast.Expr
				if j < len(vs.Values) {
					v = vs.Values[j]
					last = v
				} else {
					v = last
				}
				out = append(out, cdecl{n.Name, v, i})
			}
		}
	}
	return out
}

func optNat(ok bool, n int64) string {
	if ok {
		return fmt.Sprintf("some %d", n)
	}
	return "none"
}

func init() {
	Register("RtspWireFacts", func(e *Emitter) {
		hd := Parse("av/format/rtsp/header.go")
		rq := Parse("av/format/rtsp/request.go")
		rs := Parse("av/format/rtsp/response.go")
		pk := Parse("av/format/rtp/packet.go")
		io := Parse("service/rtsp/io.go")
		ty := Parse("service/rtsp/types.go")

		// ---- Field* constants and the canonicalKeys table
		fields := map[string]string{}
		var fieldOrder []string
		for _, c := range consts(hd) {
			if strings.HasPrefix(c.name, "Field") {
				if s, ok := strLit(c.val); ok {
					fields[c.name] = s
					fieldOrder = append(fieldOrder, c.name)
				} else {
					e.Unknown("const " + c.name)
				}
			}
		}
		var canon []string
		if cl, ok := TopValue(hd, "canonicalKeys").(*ast.CompositeLit); ok {
			for _, el := range cl.Elts {
				kv, ok := el.(*ast.KeyValueExpr)
				good := false
				if ok {
					if call, ok := kv.Key.(*ast.CallExpr); ok && Src(call.Fun) == "strings.ToUpper" && len(call.Args) == 1 && Src(call.Args[0]) == Src(kv.Value) {
						if s, ok := fields[Src(kv.Value)]; ok {
							canon = append(canon, s)
							good = true
						}
					}
				}
				if !good {
					e.Unknown("canonicalKeys entry " + Src(el))
				}
			}
		} else {
			e.Unknown("canonicalKeys")
		}
		e.P("/-- av/format/rtsp/header.go: the values of `canonicalKeys` (every entry is `strings.ToUpper(FieldX): FieldX`) -/")
		e.P("def canonicalFieldNames : List String := %s", LeanStrList(canon))
		var allFields []string
		for _, n := range fieldOrder {
			allFields = append(allFields, fields[n])
		}
		e.P("/-- all `Field*` constants -/")
		e.P("def fieldConstants : List String := %s", LeanStrList(allFields))

		// ---- status codes and texts
		codes := map[string]int64{}
		for _, c := range consts(rs) {
			if strings.HasPrefix(c.name, "Status") {
				if n, ok := evalInt(c.val, rs); ok {
					codes[c.name] = n
				} else {
					e.Unknown("const " + c.name)
				}
			}
		}
		var table []string
		if cl, ok := TopValue(rs, "statusText").(*ast.CompositeLit); ok {
			for _, el := range cl.Elts {
				kv, ok := el.(*ast.KeyValueExpr)
				good := false
				if ok {
					if n, ok := codes[Src(kv.Key)]; ok {
						if s, ok := strLit(kv.Value); ok {
							table = append(table, fmt.Sprintf("(%d, %s)", n, LeanStr(s)))
							good = true
						}
					}
				}
				if !good {
					e.Unknown("statusText entry " + Src(el))
				}
			}
		} else {
			e.Unknown("statusText")
		}
		e.P("/-- av/format/rtsp/response.go `statusText` -/")
		e.P("def statusTable : List (Nat × String) := [%s]", strings.Join(table, ", "))

		// ---- methods
		var methods []string
		for _, c := range consts(rq) {
			if strings.HasPrefix(c.name, "Method") {
				if s, ok := strLit(c.val); ok {
					methods = append(methods, s)
				} else {
					e.Unknown("const " + c.name)
				}
			}
		}
		e.P("/-- av/format/rtsp/request.go `Method*` -/")
		e.P("def methodConstants : List String := %s", LeanStrList(methods))

		// ---- protocol literals
		proto := func(f *ast.File, what string) string {
			if s, ok := strLit(TopValue(f, "rtspProto")); ok {
				return s
			}
			e.Unknown("rtspProto in " + what)
			return ""
		}
		e.P("def rtspProtoCodec : String := %s", LeanStr(proto(rq, "request.go")))
		e.P("def rtspProtoService : String := %s", LeanStr(proto(ty, "types.go")))
		// string literals written by Request.Write / Response.Write, in source order
		lits := func(f *ast.File, recv string) []string {
			var out []string
			fd := FuncDecl(f, recv, "Write")
			if fd == nil {
				e.Unknown(recv + ".Write")
				return out
			}
			ast.Inspect(fd.Body, func(n ast.Node) bool {
				if call, ok := n.(*ast.CallExpr); ok && Src(call.Fun) == "ws.WriteString" && len(call.Args) == 1 {
					if s, ok := strLit(call.Args[0]); ok {
						out = append(out, s)
					} else {
						out = append(out, "<"+Src(call.Args[0])+">")
					}
				}
				return true
			})
			return out
		}
		e.P("/-- the `ws.WriteString(..)` calls of Request.Write in source order (`<x>` = expression x) -/")
		e.P("def requestWriteSeq : List String := %s", LeanStrList(lits(rq, "Request")))
		e.P("def responseWriteSeq : List String := %s", LeanStrList(lits(rs, "Response")))
		// Header.Write: the pieces of one field line and the separator of multiple values
		hw := ""
		sep := ""
		if fd := FuncDecl(hd, "Header", "Write"); fd != nil {
			ast.Inspect(fd.Body, func(n ast.Node) bool {
				switch v := n.(type) {
				case *ast.CallExpr:
					if Src(v.Fun) == "strings.Join" && len(v.Args) == 2 {
						sep, _ = strLit(v.Args[1])
					}
				case *ast.RangeStmt:
					if cl, ok := v.X.(*ast.CompositeLit); ok && Src(cl.Type) == "[]string" {
						hw = Src(cl)
					}
				}
				return true
			})
		}
		if hw == "" || sep == "" {
			e.Unknown("Header.Write shape")
		}
		e.P("def headerWriteLine : String := %s", LeanStr(hw))
		e.P("def headerValueSeparator : String := %s", LeanStr(sep))

		// ---- readLine: the line limit
		var lineLimit int64
		lineOK := false
		lineGuard := ""
		if fd := FuncDecl(hd, "", "readLine"); fd != nil {
			ast.Inspect(fd.Body, func(n ast.Node) bool {
				if is, ok := n.(*ast.IfStmt); ok && (Src(is.Cond) == "len(line)+len(l) > maxLineLength" || Src(is.Cond) == "len(line)+len(l) >= maxLineLength") && len(is.Body.List) == 1 {
					if r, ok := is.Body.List[0].(*ast.ReturnStmt); ok && len(r.Results) == 2 && Src(r.Results[1]) != "nil" {
						if v, ok := evalInt(&ast.Ident{Name: "maxLineLength"}, hd); ok && v > 0 {
							lineLimit, lineOK = v, true
							lineGuard = Src(is.Cond)
							if strings.Contains(lineGuard, ">=") {
								lineLimit = v - 1 // `>= L` refuses exactly what `> L-1` refuses
							}
						}
					}
				}
				return true
			})
			// the guard must come before the line is returned or extended
			if lineOK {
				pos := func(pat string) token.Pos {
					var p token.Pos
					ast.Inspect(fd.Body, func(n ast.Node) bool {
						if s, ok := n.(ast.Stmt); ok && p == 0 && strings.HasPrefix(Src(s), pat) {
							p = s.Pos()
						}
						return true
					})
					return p
				}
				g, ret, app := pos("if "+lineGuard), pos("if line == nil && !more"), pos("line = append(line, l...)")
				if !(g != 0 && ret != 0 && app != 0 && g < ret && g < app) {
					e.Unknown("readLine: limit check is not ahead of the returns")
					lineOK = false
				}
			}
		} else {
			e.Unknown("readLine")
		}
		e.P("/-- header.go `readLine`: `if len(line)+len(l) > maxLineLength { return .., err }` ahead of every use of the fragment; the largest accepted line length (maxLineLength, or maxLineLength-1 when the guard says `>=`; none: no such guard) -/")
		e.P("def lineLimit : Option Nat := %s", optNat(lineOK, lineLimit))

		// ---- body: contentLength limit + ReadFull error returned, used by both readers
		var bodyLimit int64
		bodyOK := false
		if fd := FuncDecl(hd, "Header", "contentLength"); fd != nil {
			hasRange, hasMax, bodyGE := false, false, false
			ast.Inspect(fd.Body, func(n ast.Node) bool {
				if is, ok := n.(*ast.IfStmt); ok {
					c := Src(is.Cond)
					if (c == "n > maxBodyLength" || c == "n >= maxBodyLength") && len(is.Body.List) == 1 && strings.HasPrefix(Src(is.Body.List[0]), "return 0, err") {
						hasMax = true
						bodyGE = c == "n >= maxBodyLength"
					}
					if strings.Contains(c, "strconv.ErrRange") && len(is.Body.List) == 1 && strings.HasPrefix(Src(is.Body.List[0]), "return 0, err") {
						hasRange = true
					}
				}
				if call, ok := n.(*ast.CallExpr); ok && Src(call.Fun) == "strconv.ParseInt" {
					if Src(call) != "strconv.ParseInt(fv, 10, 64)" {
						hasMax = false
					}
				}
				return true
			})
			if hasRange && hasMax {
				if v, ok := evalInt(&ast.Ident{Name: "maxBodyLength"}, hd); ok && v > 0 {
					bodyLimit, bodyOK = v, true
					if bodyGE {
						bodyLimit = v - 1
					}
				}
			}
		}
		bodyErr := false
		if fd := FuncDecl(hd, "", "readBody"); fd != nil {
			ast.Inspect(fd.Body, func(n ast.Node) bool {
				if is, ok := n.(*ast.IfStmt); ok && is.Init != nil && strings.Contains(Src(is.Init), "io.ReadFull(r, body)") && Src(is.Cond) == "err != nil" &&
					len(is.Body.List) == 1 && Src(is.Body.List[0]) == "return \"\", err" {
					bodyErr = true
				}
				return true
			})
			// cl must come from contentLength and its error must be returned
			src := Src(fd.Body)
			if !strings.Contains(src, "cl, err := h.contentLength()") || !strings.Contains(src, "if err != nil || cl == 0 {\n\t\treturn \"\", err") {
				bodyOK = false
			}
		} else {
			bodyOK = false
		}
		usesReadBody := func(f *ast.File, fn, target string) bool {
			fd := FuncDecl(f, "", fn)
			if fd == nil {
				return false
			}
			src := Src(fd.Body)
			return strings.Contains(src, "if "+target+".Body, err = readBody(r, "+target+".Header); err != nil {\n\t\treturn nil, err") &&
				!strings.Contains(src, "io.ReadFull")
		}
		both := usesReadBody(rq, "ReadRequest", "req") && usesReadBody(rs, "ReadResponse", "resp")
		e.P("/-- header.go `Header.contentLength`/`readBody`, called by ReadRequest and ReadResponse with the error returned: the Content-Length limit (none: the old `Header.Int` + unchecked `make`) -/")
		e.P("def bodyLimit : Option Nat := %s", optNat(bodyOK && both, bodyLimit))
		e.P("/-- the error of `io.ReadFull` on the body is returned to the caller -/")
		e.P("def bodyErrReturned : Bool := %s", LeanBool(bodyErr && both))

		// ---- ReadPacket
		unknownPkt, recovers, badHdrPkt := false, false, false
		var prefix int64 = -1
		if v, ok := evalInt(&ast.Ident{Name: "TransferPrefix"}, pk); ok {
			prefix = v
		} else {
			e.Unknown("TransferPrefix")
		}
		if fd := FuncDecl(pk, "", "ReadPacket"); fd != nil && len(fd.Body.List) > 0 {
			if r, ok := fd.Body.List[len(fd.Body.List)-1].(*ast.ReturnStmt); ok && len(r.Results) == 2 {
				switch Src(r.Results[0]) {
				case "nil":
				case "p":
					unknownPkt = true
				default:
					e.Unknown("ReadPacket final return")
				}
			} else {
				e.Unknown("ReadPacket final return")
			}
			src := Src(fd.Body)
			// what the header-error branch returns: `return nil, err` or `return p, err`
			ast.Inspect(fd.Body, func(n ast.Node) bool {
				if is, ok := n.(*ast.IfStmt); ok && is.Init != nil && strings.Contains(Src(is.Init), "nmarshal") && Src(is.Cond) == "err != nil" {
					for _, st := range is.Body.List {
						if r, ok := st.(*ast.ReturnStmt); ok && len(r.Results) == 2 {
							switch Src(r.Results[0]) {
							case "nil":
							case "p":
								badHdrPkt = true
							default:
								e.Unknown("ReadPacket header-error return")
							}
						}
					}
				}
				return true
			})
			switch {
			case strings.Contains(src, "p.Header.Unmarshal(p.Data)"):
			case strings.Contains(src, "unmarshalHeader(&p.Header, p.Data)"):
				// the wrapper must recover
				if w := FuncDecl(pk, "", "unmarshalHeader"); w != nil && strings.Contains(Src(w.Body), "recover()") && strings.Contains(Src(w.Body), "h.Unmarshal(data)") {
					recovers = true
				} else {
					e.Unknown("unmarshalHeader")
				}
			default:
				e.Unknown("ReadPacket header parse")
			}
		} else {
			e.Unknown("ReadPacket")
		}
		chCount := int64(-1)
		for _, c := range consts(pk) {
			if c.name == "ChannelCount" {
				chCount = int64(c.iota)
			}
		}
		e.P("def transferPrefix : Nat := %d", prefix)
		e.P("/-- `ChannelCount` (position in the iota block) -/")
		e.P("def channelCount : Nat := %d", chCount)
		e.P("/-- ReadPacket's last statement returns the packet (not nil) with the unknown-channel error -/")
		e.P("def unknownChannelReturnsPacket : Bool := %s", LeanBool(unknownPkt))
		e.P("/-- an RTP header that does not parse: ReadPacket returns the packet (not nil) with the error -/")
		e.P("def badHeaderReturnsPacket : Bool := %s", LeanBool(badHdrPkt))
		e.P("/-- the RTP header is parsed through a wrapper that recovers from a panic of pion's Unmarshal -/")
		e.P("def rtpUnmarshalRecovers : Bool := %s", LeanBool(recovers))
		// Packet.Write: guards and the two writes in order
		var pw []string
		if fd := FuncDecl(pk, "Packet", "Write"); fd != nil {
			for _, st := range fd.Body.List {
				switch s := st.(type) {
				case *ast.IfStmt:
					init := ""
					if s.Init != nil {
						init = Src(s.Init) + "; "
					}
					pw = append(pw, "if "+init+Src(s.Cond)+" { "+strings.Join(strings.Fields(Src(s.Body.List[0])), " ")+" }")
				case *ast.DeclStmt:
				default:
					if strings.HasPrefix(Src(st), "verifhook.Point(") {
						continue // verification schedule point (no-op without the verif tag)
					}
					pw = append(pw, strings.Join(strings.Fields(Src(st)), " "))
				}
			}
		} else {
			e.Unknown("Packet.Write")
		}
		e.P("/-- packet.go `Packet.Write`, statement by statement -/")
		e.P("def packetWriteSeq : List String := %s", LeanStrList(pw))

		// ---- receive: peek size and dispatch
		peek := int64(-1)
		var disp []string
		if fd := FuncDecl(io, "", "receive"); fd != nil {
			ast.Inspect(fd.Body, func(n ast.Node) bool {
				switch v := n.(type) {
				case *ast.CallExpr:
					if Src(v.Fun) == "r.Peek" && len(v.Args) == 1 {
						peek, _ = evalInt(v.Args[0], io)
					}
				case *ast.IfStmt:
					c := Src(v.Cond)
					if c == "sl[0] == rtpPackPrefix" || c == "sl[i] != rtspProto[i]" || c == "i == 4" || c == "pack != nil" {
						disp = append(disp, c)
					}
				case *ast.ForStmt:
					disp = append(disp, "for "+Src(v.Cond))
				}
				return true
			})
		} else {
			e.Unknown("receive")
		}
		e.P("def receivePeek : Int := %d", peek)
		e.P("/-- io.go `receive`: the dispatch conditions in source order -/")
		e.P("def receiveDispatch : List String := %s", LeanStrList(disp))
		if s, ok := TopValue(ty, "rtpPackPrefix").(*ast.SelectorExpr); !ok || Src(s) != "rtp.TransferPrefix" {
			e.Unknown("rtpPackPrefix")
		}

		// ---- the WebSocket transport an RTSP-over-WebSocket session reads through
		wsFacts(e)
	})
}

// positiveEOF: the condition holds only when `err == io.EOF` (the comparison itself or a conjunction containing it)
func positiveEOF(x ast.Expr) bool {
	switch v := x.(type) {
	case *ast.ParenExpr:
		return positiveEOF(v.X)
	case *ast.BinaryExpr:
		if v.Op.String() == "&&" {
			return positiveEOF(v.X) || positiveEOF(v.Y)
		}
		if v.Op.String() == "==" {
			a, b := Src(v.X), Src(v.Y)
			return (a == "err" && b == "io.EOF") || (a == "io.EOF" && b == "err")
		}
	}
	return false
}

// wsFacts: network/websocket/websocket.go (*websocketTransport).Read — where the current message
// reader `c.reader` is taken, read and dropped
func wsFacts(e *Emitter) {
	ws := Parse("network/websocket/websocket.go")
	dropOnlyAtEOF, nextOnlyWhenNil, setFromNext, readOnce := false, false, false, false
	fd := FuncDecl(ws, "websocketTransport", "Read")
	if fd == nil || fd.Recv == nil || len(fd.Recv.List) != 1 || len(fd.Recv.List[0].Names) != 1 || fd.Recv.List[0].Names[0].Name != "c" {
		e.Unknown("websocketTransport.Read")
	} else {
		type guard struct {
			cond ast.Expr
			neg  bool
		}
		drops, dropsAtEOF, nexts, nextsGuarded, sets, setsOK, reads := 0, 0, 0, 0, 0, 0, 0
		hasCall := func(n ast.Node, fun string) int {
			k := 0
			if n == nil {
				return 0
			}
			ast.Inspect(n, func(x ast.Node) bool {
				if _, ok := x.(*ast.FuncLit); ok {
					e.Unknown("websocketTransport.Read: function literal")
					return false
				}
				if c, ok := x.(*ast.CallExpr); ok && Src(c.Fun) == fun {
					k++
				}
				return true
			})
			return k
		}
		var walk func(st ast.Stmt, gs []guard)
		simple := func(st ast.Node, gs []guard) {
			underNil := false
			for _, g := range gs {
				if !g.neg && Src(g.cond) == "c.reader == nil" {
					underNil = true
				}
			}
			if k := hasCall(st, "c.socket.NextReader"); k > 0 {
				nexts += k
				if underNil {
					nextsGuarded += k
				}
			}
			reads += hasCall(st, "c.reader.Read")
			if as, ok := st.(*ast.AssignStmt); ok {
				for i, l := range as.Lhs {
					if Src(l) != "c.reader" {
						continue
					}
					if len(as.Rhs) != len(as.Lhs) {
						e.Unknown("websocketTransport.Read: c.reader assigned from a call")
						continue
					}
					if Src(as.Rhs[i]) == "nil" {
						drops++
						for _, g := range gs {
							if !g.neg && positiveEOF(g.cond) {
								dropsAtEOF++
								break
							}
						}
					} else {
						sets++
						if Src(as.Rhs[i]) == "r" && underNil {
							setsOK++
						}
					}
				}
			}
		}
		walk = func(st ast.Stmt, gs []guard) {
			switch v := st.(type) {
			case nil:
			case *ast.BlockStmt:
				for _, s := range v.List {
					walk(s, gs)
				}
			case *ast.IfStmt:
				if v.Init != nil {
					simple(v.Init, gs)
				}
				simple(v.Cond, gs)
				walk(v.Body, append(append([]guard(nil), gs...), guard{v.Cond, false}))
				walk(v.Else, append(append([]guard(nil), gs...), guard{v.Cond, true}))
			case *ast.ForStmt:
				if v.Init != nil {
					simple(v.Init, gs)
				}
				if v.Cond != nil {
					simple(v.Cond, gs)
				}
				if v.Post != nil {
					simple(v.Post, gs)
				}
				walk(v.Body, gs)
			case *ast.AssignStmt, *ast.ExprStmt, *ast.ReturnStmt, *ast.DeclStmt, *ast.BranchStmt, *ast.IncDecStmt:
				simple(st, gs)
			default:
				e.Unknown("websocketTransport.Read: statement " + strings.Join(strings.Fields(Src(st)), " "))
			}
		}
		walk(fd.Body, nil)
		dropOnlyAtEOF = drops >= 1 && drops == dropsAtEOF
		nextOnlyWhenNil = nexts == 1 && nextsGuarded == 1
		setFromNext = sets == 1 && setsOK == 1
		readOnce = reads == 1
	}
	e.P("/-- network/websocket/websocket.go `(*websocketTransport).Read`: every `c.reader = nil` lies under a condition that holds only when `err == io.EOF` (and there is one) -/")
	e.P("def wsReaderDroppedOnlyAtEOF : Bool := %s", LeanBool(dropOnlyAtEOF))
	e.P("/-- … `c.socket.NextReader()` is called in one place, under `c.reader == nil` -/")
	e.P("def wsNextReaderOnlyWhenNil : Bool := %s", LeanBool(nextOnlyWhenNil))
	e.P("/-- … `c.reader` is set in one place, to the reader `NextReader` returned -/")
	e.P("def wsReaderSetFromNextReader : Bool := %s", LeanBool(setFromNext))
	e.P("/-- … one `c.reader.Read(b)` per call -/")
	e.P("def wsReadOncePerCall : Bool := %s", LeanBool(readOnce))
}
