// Translator of property C07: the facts of av/format/rtp (shared with C06) plus the
// containment facts: cache classifiers, ReadPacket / receive, the converter goroutines'
// recover placement, the FLV / TS muxer guards, the goroutines that parse SDP.
package main

import (
	"go/ast"
	"strings"

	"verifharness/tlib"
	df "verifharness/tr/depackfacts"
)

func main() {
	df.Register()
	tlib.Register("ContainFacts", contain)
	tlib.Main()
}

func oneLine(s string) string { return strings.Join(strings.Fields(s), " ") }

// returns lists the return statements of fd in source order
func returns(fd *ast.FuncDecl) []string {
	var out []string
	if fd == nil || fd.Body == nil {
		return out
	}
	ast.Inspect(fd.Body, func(n ast.Node) bool {
		if _, ok := n.(*ast.FuncLit); ok {
			return false
		}
		if r, ok := n.(*ast.ReturnStmt); ok {
			out = append(out, oneLine(tlib.Src(r)))
		}
		return true
	})
	return out
}

// deferRecover: "first" when the first statement of the body is `defer func(){… recover() …}()`,
// "later" when a deferred recover exists further down, "none" otherwise; inLoop: a recover
// inside the body of a for statement (per-iteration containment).
func deferRecover(fd *ast.FuncDecl) (where string, inLoop bool) {
	where = "none"
	if fd == nil || fd.Body == nil {
		return "unknown", false
	}
	hasRecover := func(n ast.Node) bool {
		found := false
		ast.Inspect(n, func(m ast.Node) bool {
			if c, ok := m.(*ast.CallExpr); ok {
				if id, ok := c.Fun.(*ast.Ident); ok && id.Name == "recover" {
					found = true
				}
			}
			return true
		})
		return found
	}
	for i, st := range fd.Body.List {
		if d, ok := st.(*ast.DeferStmt); ok && hasRecover(d) {
			if i == 0 {
				where = "first"
			} else if where == "none" {
				where = "later"
			}
		}
	}
	ast.Inspect(fd.Body, func(n ast.Node) bool {
		if f, ok := n.(*ast.ForStmt); ok && hasRecover(f.Body) {
			inLoop = true
		}
		return true
	})
	return
}

func has(l []string, s string) bool {
	for _, x := range l {
		if x == s {
			return true
		}
	}
	return false
}

// callsIn lists the call expressions (as statements) of the body of the `if <cond>` statement of fd
func callsIn(fd *ast.FuncDecl, cond string) []string {
	var out []string
	if fd == nil || fd.Body == nil {
		return out
	}
	ast.Inspect(fd.Body, func(n ast.Node) bool {
		if x, ok := n.(*ast.IfStmt); ok && oneLine(tlib.Src(x.Cond)) == cond {
			for _, st := range x.Body.List {
				out = append(out, oneLine(tlib.Src(st)))
			}
			return false
		}
		return true
	})
	return out
}

func contain(e *tlib.Emitter) {
	conds := func(name, file, recv, fn string) (*ast.FuncDecl, []string) {
		fd := tlib.FuncDecl(tlib.Parse(file), recv, fn)
		if fd == nil {
			e.Unknown(recv + "." + fn)
		}
		cs := df.Conds(fd)
		e.P("/-- %s: %s.%s — every if / for / switch / case condition, in source order -/", file, recv, fn)
		e.P("def %s : List String := %s", name, tlib.LeanStrList(cs))
		return fd, cs
	}
	_, c264 := conds("cache264Conds", "media/cache/h264cache.go", "H264Cache", "getPalyloadType")
	_, c265 := conds("cache265Conds", "media/cache/hevccache.go", "HevcCache", "getPalyloadType")
	conds("cache264NalTypeConds", "media/cache/h264cache.go", "H264Cache", "nalType")
	conds("cache265NalTypeConds", "media/cache/hevccache.go", "HevcCache", "nalType")
	chk := func(cs []string) bool {
		return has(cs, "if off+2 > len(payload)") && has(cs, "if off >= len(payload)") &&
			// the second occurrence (after `off += 2`) precedes the index: count it
			count(cs, "if off >= len(payload)") >= 2
	}
	e.P("def cache264Checked : Bool := %s", tlib.LeanBool(chk(c264)))
	e.P("def cache265Checked : Bool := %s", tlib.LeanBool(chk(c265)))

	// ReadPacket / receive
	rp, _ := conds("readPacketConds", "av/format/rtp/packet.go", "", "ReadPacket")
	rets := returns(rp)
	e.P("def readPacketReturns : List String := %s", tlib.LeanStrList(rets))
	unk := len(rets) > 0 && strings.HasPrefix(rets[len(rets)-1], "return p, errors.New(")
	e.P("def unknownChannelTolerated : Bool := %s", tlib.LeanBool(unk))
	e.P("def badHeaderTolerated : Bool := %s", tlib.LeanBool(has(rets, "return p, err")))
	uh := tlib.FuncDecl(tlib.Parse("av/format/rtp/packet.go"), "", "unmarshalHeader")
	w, _ := deferRecover(uh)
	usesUh := false
	if rp != nil {
		ast.Inspect(rp.Body, func(n ast.Node) bool {
			if c, ok := n.(*ast.CallExpr); ok && tlib.Src(c.Fun) == "unmarshalHeader" {
				usesUh = true
			}
			return true
		})
	}
	e.P("def headerPanicRecovered : Bool := %s", tlib.LeanBool(uh != nil && w == "first" && usesUh))
	pl := tlib.FuncDecl(tlib.Parse("av/format/rtp/packet.go"), "Packet", "Payload")
	e.P("def stripsPadding : Bool := %s", tlib.LeanBool(has(df.Conds(pl), "if p.Padding && end > p.PayloadOffset")))
	rc, _ := conds("receiveConds", "service/rtsp/io.go", "", "receive")
	e.P("def receivePackBranch : List String := %s", tlib.LeanStrList(callsIn(rc, "err != nil")))

	// recover placement of the goroutines
	type g struct{ lean, file, recv, fn string }
	for _, x := range []g{
		{"sessionProcess", "service/rtsp/session.go", "Session", "process"},
		{"pullPlayStream", "service/rtsp/pull_client.go", "PullClient", "playStream"},
		{"pullOpen", "service/rtsp/pull_client.go", "PullClient", "Open"},
		{"demuxerProcess", "av/format/rtp/demuxer.go", "Demuxer", "process"},
		{"flvMuxerProcess", "av/format/flv/muxer.go", "Muxer", "process"},
		{"tsMuxerProcess", "av/format/mpegts/muxer.go", "Muxer", "process"},
	} {
		fd := tlib.FuncDecl(tlib.Parse(x.file), x.recv, x.fn)
		if fd == nil {
			e.Unknown(x.recv + "." + x.fn)
		}
		where, inLoop := deferRecover(fd)
		e.P("/-- %s: %s.%s — deferred recover: first statement / later / none; recover inside the loop body -/", x.file, x.recv, x.fn)
		e.P("def %sRecover : String := %s", x.lean, tlib.LeanStr(where))
		e.P("def %sRecoverInLoop : Bool := %s", x.lean, tlib.LeanBool(inLoop))
	}

	// FLV muxer: what happens before the first frame is packetized
	fp, cfp := conds("flvProcessConds", "av/format/flv/muxer.go", "Muxer", "process")
	seq := callsIn(fp, "!packSequenceHeader")
	e.P("def flvSequenceHeaderBlock : List String := %s", tlib.LeanStrList(seq))
	_ = cfp
	vmr := tlib.FuncDecl(tlib.Parse("av/format/flv/muxer.go"), "Muxer", "videoMetaReady")
	vmrRets := returns(vmr)
	e.P("/-- flv Muxer.videoMetaReady: conditions and return expressions (absent on the pinned tree) -/")
	e.P("def flvVideoMetaReadyConds : List String := %s", tlib.LeanStrList(df.Conds(vmr)))
	e.P("def flvVideoMetaReadyReturns : List String := %s", tlib.LeanStrList(vmrRets))
	// two recognised shapes of videoMetaReady: (old) parameter sets present, SPS of >= 4 bytes;
	// (new) additionally the SPS validated (Width != 0) or decodable
	eq := func(a, b []string) bool {
		if len(a) != len(b) {
			return false
		}
		for i := range a {
			if a[i] != b[i] {
				return false
			}
		}
		return true
	}
	oldShape := eq(vmrRets, []string{"return len(vm.Vps) > 0 && len(vm.Sps) > 0 && len(vm.Pps) > 0", "return len(vm.Sps) >= 4 && len(vm.Pps) > 0"}) &&
		eq(df.Conds(vmr), []string{"if vm.Codec == \"H265\""})
	newShape := eq(vmrRets, []string{"return false", "return true", "return sps.Decode(vm.Sps) == nil", "return false", "return true", "return sps.Decode(vm.Sps) == nil"}) &&
		eq(df.Conds(vmr), []string{"if vm.Codec == \"H265\"", "if len(vm.Vps) == 0 || len(vm.Sps) == 0 || len(vm.Pps) == 0", "if vm.Width != 0", "if len(vm.Sps) < 4 || len(vm.Pps) == 0", "if vm.Width != 0"})
	waits := len(seq) > 0 && seq[0] == "if !muxer.videoMetaReady() { continue }" && (oldShape || newShape)
	e.P("def flvWaitsForParameterSets : Bool := %s", tlib.LeanBool(waits))
	e.P("/-- videoMetaReady wants the SPS validated (Width != 0) or decodable before the sequence headers are built -/")
	e.P("def flvValidatesSps : Bool := %s", tlib.LeanBool(waits && newShape))
	conds("flvH264PacketizeConds", "av/format/flv/h264_packetizer.go", "h264Packetizer", "Packetize")
	// TS
	_, cta := conds("tsAacPacketizeConds", "av/format/mpegts/aac_packetizer.go", "aacPacketizer", "Packetize")
	e.P("def tsAacChecked : Bool := %s", tlib.LeanBool(len(cta) > 0 && cta[0] == "if ap.audioSps == nil"))
	conds("tsProcessConds", "av/format/mpegts/muxer.go", "Muxer", "process")
	_, cah := conds("tsAvcHeaderConds", "av/format/mpegts/frame.go", "Frame", "prepareAvcHeader")
	e.P("/-- prepareAvcHeader returns before the start code for NAL types 7–9 (pinned tree) -/")
	e.P("def tsAvcSkips79 : Bool := %s", tlib.LeanBool(has(cah, "if nalUnitType >= h264.NalSps && nalUnitType <= h264.NalAud")))
	// SDP
	conds("parseMetadataConds", "av/format/sdp/parsemeta.go", "", "ParseMetadata")
	// Stream.WriteRtpPacket: the statements in order (cache before fan-out before demuxer)
	if fd := tlib.FuncDecl(tlib.Parse("media/stream.go"), "Stream", "WriteRtpPacket"); fd != nil && fd.Body != nil {
		var l []string
		for _, st := range fd.Body.List {
			s := oneLine(tlib.Src(st))
			if strings.HasPrefix(s, "verifhook.") {
				continue
			}
			l = append(l, s)
		}
		e.P("def writeRtpPacketBody : List String := %s", tlib.LeanStrList(l))
	} else {
		e.Unknown("Stream.WriteRtpPacket")
		e.P("def writeRtpPacketBody : List String := []")
	}
}

func count(l []string, s string) int {
	n := 0
	for _, x := range l {
		if x == s {
			n++
		}
	}
	return n
}
