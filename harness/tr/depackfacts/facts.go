// Package depackfacts extracts the source-level facts of av/format/rtp the Lean model
// IpcHub.Depack depends on (guards, constants, dispatch).  Shared by tr/c06 and tr/c07.
package depackfacts

import (
	"go/ast"
	"go/token"
	"strconv"
	"strings"

	tl "verifharness/tlib"
)

// Conds lists, in source order, every if / for condition and every case expression of fd.
func Conds(fd *ast.FuncDecl) []string {
	var out []string
	if fd == nil || fd.Body == nil {
		return out
	}
	ast.Inspect(fd.Body, func(n ast.Node) bool {
		switch x := n.(type) {
		case *ast.IfStmt:
			out = append(out, "if "+tl.Src(x.Cond))
		case *ast.ForStmt:
			if x.Cond != nil {
				out = append(out, "for "+tl.Src(x.Cond))
			} else {
				out = append(out, "for")
			}
		case *ast.SwitchStmt:
			if x.Tag != nil {
				out = append(out, "switch "+tl.Src(x.Tag))
			} else {
				out = append(out, "switch")
			}
		case *ast.CaseClause:
			if x.List == nil {
				out = append(out, "default")
			} else {
				var es []string
				for _, e := range x.List {
					es = append(es, tl.Src(e))
				}
				out = append(out, "case "+strings.Join(es, ", "))
			}
		}
		return true
	})
	return out
}

// Assigns lists the assignment statements of fd whose (first) left-hand side starts with prefix.
func Assigns(fd *ast.FuncDecl, prefix string) []string {
	var out []string
	if fd == nil || fd.Body == nil {
		return out
	}
	ast.Inspect(fd.Body, func(n ast.Node) bool {
		if a, ok := n.(*ast.AssignStmt); ok && len(a.Lhs) > 0 && strings.HasPrefix(tl.Src(a.Lhs[0]), prefix) {
			out = append(out, oneLine(tl.Src(a)))
		}
		return true
	})
	return out
}

func oneLine(s string) string { return strings.Join(strings.Fields(s), " ") }

// HeadMin recognises `if len(<v>) < N { return }` as the FIRST if statement of the body
// (only declarations / assignments may precede it) and returns N; 0 when there is no such guard.
func HeadMin(fd *ast.FuncDecl, v string) (int, bool) {
	if fd == nil || fd.Body == nil {
		return 0, false
	}
	for _, st := range fd.Body.List {
		switch x := st.(type) {
		case *ast.AssignStmt, *ast.DeclStmt:
			continue
		case *ast.IfStmt:
			c := tl.Src(x.Cond)
			pre := "len(" + v + ") < "
			if strings.HasPrefix(c, pre) && x.Else == nil && x.Init == nil && onlyReturn(x.Body) {
				n, err := strconv.Atoi(strings.TrimSpace(c[len(pre):]))
				if err == nil {
					return n, true
				}
			}
			return 0, true
		default:
			return 0, true
		}
	}
	return 0, true
}

func onlyReturn(b *ast.BlockStmt) bool {
	if b == nil || len(b.List) != 1 {
		return false
	}
	_, ok := b.List[0].(*ast.ReturnStmt)
	return ok
}

func has(l []string, s string) bool {
	for _, x := range l {
		if x == s {
			return true
		}
	}
	return false
}

// elseIfReturn: is there `if <c1> {...} else if <c2> { return }` in fd ?
func elseIfReturn(fd *ast.FuncDecl, c1, c2 string) bool {
	found := false
	if fd == nil || fd.Body == nil {
		return false
	}
	ast.Inspect(fd.Body, func(n ast.Node) bool {
		if x, ok := n.(*ast.IfStmt); ok && tl.Src(x.Cond) == c1 {
			if e, ok := x.Else.(*ast.IfStmt); ok && tl.Src(e.Cond) == c2 && onlyReturn(e.Body) {
				found = true
			}
		}
		return true
	})
	return found
}

// intConst evaluates simple constant declarations (literals and iota sequences) of a file.
func IntConsts(f *ast.File) map[string]int {
	m := map[string]int{}
	if f == nil {
		return m
	}
	for _, d := range f.Decls {
		g, ok := d.(*ast.GenDecl)
		if !ok || g.Tok != token.CONST {
			continue
		}
		var last ast.Expr
		for i, s := range g.Specs {
			vs := s.(*ast.ValueSpec)
			var e ast.Expr
			if len(vs.Values) > 0 {
				e = vs.Values[0]
				last = e
			} else {
				e = last
			}
			if v, ok := evalInt(e, i, m); ok {
				for _, n := range vs.Names {
					m[n.Name] = v
				}
			}
		}
	}
	return m
}

func evalInt(e ast.Expr, iota int, env map[string]int) (int, bool) {
	switch x := e.(type) {
	case *ast.BasicLit:
		if x.Kind == token.INT {
			v, err := strconv.ParseInt(x.Value, 0, 64)
			return int(v), err == nil
		}
	case *ast.Ident:
		if x.Name == "iota" {
			return iota, true
		}
		v, ok := env[x.Name]
		return v, ok
	case *ast.ParenExpr:
		return evalInt(x.X, iota, env)
	case *ast.BinaryExpr:
		a, ok1 := evalInt(x.X, iota, env)
		b, ok2 := evalInt(x.Y, iota, env)
		if ok1 && ok2 {
			switch x.Op {
			case token.ADD:
				return a + b, true
			case token.SUB:
				return a - b, true
			case token.MUL:
				return a * b, true
			case token.SHL:
				return a << uint(b), true
			case token.OR:
				return a | b, true
			}
		}
	case *ast.CallExpr: // byte(0x24)
		if len(x.Args) == 1 {
			return evalInt(x.Args[0], iota, env)
		}
	}
	return 0, false
}

// compositeField finds `name: <int literal>` inside the first composite literal of fd
func compositeField(fd *ast.FuncDecl, name string) (int, bool) {
	v, ok := 0, false
	if fd == nil || fd.Body == nil {
		return 0, false
	}
	ast.Inspect(fd.Body, func(n ast.Node) bool {
		if kv, isKV := n.(*ast.KeyValueExpr); isKV && tl.Src(kv.Key) == name {
			if lit, isLit := kv.Value.(*ast.BasicLit); isLit && lit.Kind == token.INT {
				x, err := strconv.Atoi(lit.Value)
				if err == nil && !ok {
					v, ok = x, true
				}
			}
		}
		return true
	})
	return v, ok
}

// Register registers the DepackFacts generator.
func Register() {
	registerOnce("DepackFacts", func(e *tl.Emitter) {
		h264 := tl.Parse("av/format/rtp/h264_depacketizer.go")
		h265 := tl.Parse("av/format/rtp/h265_depacketizer.go")
		aacf := tl.Parse("av/format/rtp/aac_depacketizer.go")
		sc := tl.Parse("av/format/rtp/syncclock.go")
		dm := tl.Parse("av/format/rtp/demuxer.go")
		emitConds := func(name string, f *ast.File, recv, fn string) (*ast.FuncDecl, []string) {
			fd := tl.FuncDecl(f, recv, fn)
			if fd == nil {
				e.Unknown(recv + "." + fn)
			}
			cs := Conds(fd)
			e.P("/-- %s.%s: every if / for / switch / case condition, in source order -/", recv, fn)
			e.P("def %s : List String := %s", name, tl.LeanStrList(cs))
			return fd, cs
		}
		fdD, _ := emitConds("h264DepacketizeConds", h264, "h264Depacketizer", "Depacketize")
		fdS, cS := emitConds("h264StapaConds", h264, "h264Depacketizer", "depacketizeStapa")
		fdF, _ := emitConds("h264FuAConds", h264, "h264Depacketizer", "depacketizeFuA")
		fdW, cW := emitConds("h264WriteFrameConds", h264, "h264Depacketizer", "writeFrame")
		fd5D, _ := emitConds("h265DepacketizeConds", h265, "h265Depacketizer", "Depacketize")
		fd5S, c5S := emitConds("h265StapConds", h265, "h265Depacketizer", "depacketizeStap")
		fd5F, _ := emitConds("h265FuConds", h265, "h265Depacketizer", "depacketizeFu")
		_, c5W := emitConds("h265WriteFrameConds", h265, "h265Depacketizer", "writeFrame")
		fdA, cA := emitConds("aacConds", aacf, "aacDepacketizer", "depacketizeFor2ByteAUHeader")
		_, cSR := emitConds("syncDecodeConds", sc, "SyncClock", "Decode")
		emitConds("controlConds", dm, "depacketizer", "Control")
		emitConds("demuxProcessConds", dm, "Demuxer", "process")
		// which Depacketize entry point does aacDepacketizer.Depacketize call?
		aacEntry := ""
		if fd := tl.FuncDecl(aacf, "aacDepacketizer", "Depacketize"); fd != nil && fd.Body != nil && len(fd.Body.List) == 1 {
			if r, ok := fd.Body.List[0].(*ast.ReturnStmt); ok && len(r.Results) == 1 {
				aacEntry = tl.Src(r.Results[0])
			}
		}
		if aacEntry == "" {
			e.Unknown("aacDepacketizer.Depacketize")
		}
		e.P("def aacEntry : String := %s", tl.LeanStr(aacEntry))

		e.P("/-- assignments to the rebuilt NAL header bytes -/")
		e.P("def h264StapaHeaderAssigns : List String := %s", tl.LeanStrList(Assigns(fdS, "frame.Payload[")))
		e.P("def h264FuAHeaderAssigns : List String := %s", tl.LeanStrList(Assigns(fdF, "frame.Payload[")))
		e.P("def h265StapHeaderAssigns : List String := %s", tl.LeanStrList(Assigns(fd5S, "frame.Payload[")))
		e.P("def h265FuHeaderAssigns : List String := %s", tl.LeanStrList(Assigns(fd5F, "frame.Payload[")))
		e.P("/-- offsets: `off := …`, `off += …`, `rawDataOffset := …`, `frameLen := …` -/")
		offs := func(fd *ast.FuncDecl) []string {
			var l []string
			for _, p := range []string{"off", "rawDataOffset", "frameLen", "offset", "framesPayloadOffset", "frameTimeStamp", "frameSize", "auHeadersCount"} {
				for _, a := range Assigns(fd, p) {
					if strings.HasPrefix(a, p+" ") {
						l = append(l, a)
					}
				}
			}
			return l
		}
		e.P("def h264StapaOffsets : List String := %s", tl.LeanStrList(offs(fdS)))
		e.P("def h264FuAOffsets : List String := %s", tl.LeanStrList(offs(fdF)))
		e.P("def h265StapOffsets : List String := %s", tl.LeanStrList(offs(fd5S)))
		e.P("def h265FuOffsets : List String := %s", tl.LeanStrList(offs(fd5F)))
		e.P("def aacOffsets : List String := %s", tl.LeanStrList(offs(fdA)))

		num := func(name string, fd *ast.FuncDecl) {
			n, ok := HeadMin(fd, "payload")
			if !ok {
				e.Unknown(name)
			}
			e.P("def %s : Nat := %d", name, n)
		}
		e.P("/-- `if len(payload) < N { return }` at the head of the function (0: no such guard) -/")
		num("h264Min", fdD)
		num("fuaMin", fdF)
		num("h265Min", fd5D)
		num("fuMin", fd5F)
		e.P("/-- derived guard flags (the exact condition lists above are what the proofs pin) -/")
		e.P("def stapaChecked : Bool := %s", tl.LeanBool(has(cS, "if off+2 > len(payload)") && has(cS, "if off+int(nalSize) > len(payload)")))
		e.P("def stapaRewritesNri : Bool := %s", tl.LeanBool(len(Assigns(fdS, "frame.Payload[0]")) > 0))
		e.P("def fuaNeedsStart : Bool := %s", tl.LeanBool(elseIfReturn(fdF, "(fuHeader>>7)&1 == 1", "len(h264dp.fragments) == 0")))
		keepsF := false
		for _, a := range Assigns(fdF, "frame.Payload[0]") {
			if strings.ToLower(strings.ReplaceAll(a, " ", "")) == "frame.payload[0]=(header&0xe0)|(fuheader&0x1f)" {
				keepsF = true
			}
		}
		e.P("def fuaKeepsF : Bool := %s", tl.LeanBool(keepsF))
		e.P("def apChecked : Bool := %s", tl.LeanBool(has(c5S, "if off+2 > len(payload)") && has(c5S, "if off+int(nalSize) > len(payload)")))
		e.P("def aacChecked : Bool := %s", tl.LeanBool(has(cA, "if len(payload) < 2") && has(cA, "if framesPayloadOffset > len(payload)") && has(cA, "if int(frameSize) > len(framesPayload)")))
		e.P("def srChecked : Bool := %s", tl.LeanBool(has(cSR, "if len(data) >= 20 && data[1] == 200")))
		unv := func(f *ast.File, recv, dp string) bool {
			fd := tl.FuncDecl(f, recv, "unvalidated")
			if fd == nil || fd.Body == nil || len(fd.Body.List) != 1 {
				return false
			}
			r, ok := fd.Body.List[0].(*ast.ReturnStmt)
			return ok && len(r.Results) == 1 && tl.Src(r.Results[0]) == "!"+dp+".metaReady && "+dp+".meta.Width == 0"
		}
		e.P("def psUntilReady264 : Bool := %s", tl.LeanBool(unv(h264, "h264Depacketizer", "h264dp") && has(cW, "if len(h264dp.meta.Sps) == 0 || h264dp.unvalidated()") && has(cW, "if len(h264dp.meta.Pps) == 0 || h264dp.unvalidated()")))
		e.P("def psUntilReady265 : Bool := %s", tl.LeanBool(unv(h265, "h265Depacketizer", "h265dp") && has(c5W, "if len(h265dp.meta.Vps) == 0 || h265dp.unvalidated()") && has(c5W, "if len(h265dp.meta.Sps) == 0 || h265dp.unvalidated()") && has(c5W, "if len(h265dp.meta.Pps) == 0 || h265dp.unvalidated()")))
		for _, x := range []struct {
			f          *ast.File
			recv, name string
		}{{h264, "h264Depacketizer", "h264Unvalidated"}, {h265, "h265Depacketizer", "h265Unvalidated"}} {
			body := []string{}
			if fd := tl.FuncDecl(x.f, x.recv, "unvalidated"); fd != nil && fd.Body != nil {
				for _, st := range fd.Body.List {
					body = append(body, oneLine(tl.Src(st)))
				}
			}
			e.P("def %s : List String := %s", x.name, tl.LeanStrList(body))
		}
		_ = fdW

		// constants
		hc := IntConsts(tl.Parse("av/codec/h264/const.go"))
		vc := IntConsts(tl.Parse("av/codec/hevc/const.go"))
		ac := IntConsts(tl.Parse("av/codec/aac/const.go"))
		pc := IntConsts(tl.Parse("av/format/rtp/packet.go"))
		cst := func(lean string, m map[string]int, name string) {
			v, ok := m[name]
			if !ok {
				e.Unknown(name)
			}
			e.P("def %s : Nat := %d", lean, v)
		}
		cst("h264NalSps", hc, "NalSps")
		cst("h264NalPps", hc, "NalPps")
		cst("h264NalIdrSlice", hc, "NalIdrSlice")
		cst("h264NalFillerData", hc, "NalFillerData")
		cst("h264NalStapaInRtp", hc, "NalStapaInRtp")
		cst("h264NalFuAInRtp", hc, "NalFuAInRtp")
		cst("h264NalTypeBitmask", hc, "NalTypeBitmask")
		cst("hevcNalVps", vc, "NalVps")
		cst("hevcNalSps", vc, "NalSps")
		cst("hevcNalPps", vc, "NalPps")
		cst("hevcNalBlaWLp", vc, "NalBlaWLp")
		cst("hevcNalCraNut", vc, "NalCraNut")
		cst("hevcNalStapInRtp", vc, "NalStapInRtp")
		cst("hevcNalFuInRtp", vc, "NalFuInRtp")
		cst("samplesPerFrame", ac, "SamplesPerFrame")
		cst("channelVideo", pc, "ChannelVideo")
		cst("channelVideoControl", pc, "ChannelVideoControl")
		cst("channelAudio", pc, "ChannelAudio")
		cst("channelAudioControl", pc, "ChannelAudioControl")
		cst("channelCount", pc, "ChannelCount")
		cst("transferPrefix", pc, "TransferPrefix")
		if v := tl.TopValue(dm, "ptsDelay"); v != nil {
			e.P("def ptsDelayExpr : String := %s", tl.LeanStr(tl.Src(v)))
		} else {
			e.Unknown("ptsDelay")
			e.P("def ptsDelayExpr : String := \"\"")
		}
		if v := tl.TopValue(sc, "jan1970"); v != nil {
			e.P("def jan1970Expr : String := %s", tl.LeanStr(tl.Src(v)))
		}
		nd := tl.FuncDecl(aacf, "", "NewAacDepacketizer")
		for _, f := range []string{"sizeLength", "indexLength"} {
			v, ok := compositeField(nd, f)
			if !ok {
				e.Unknown("NewAacDepacketizer." + f)
			}
			e.P("def aac%s : Nat := %d", strings.Title(f), v)
		}
		// RelativeNtp: the two statements
		if fd := tl.FuncDecl(sc, "SyncClock", "RelativeNtp"); fd != nil && fd.Body != nil {
			var l []string
			for _, st := range fd.Body.List {
				l = append(l, oneLine(tl.Src(st)))
			}
			e.P("def relativeNtpBody : List String := %s", tl.LeanStrList(l))
		} else {
			e.Unknown("SyncClock.RelativeNtp")
			e.P("def relativeNtpBody : List String := []")
		}
		// Payload(): which channels carry an RTP header
		if fd := tl.FuncDecl(tl.Parse("av/format/rtp/packet.go"), "Packet", "Payload"); fd != nil && fd.Body != nil {
			var l []string
			for _, st := range fd.Body.List {
				l = append(l, oneLine(tl.Src(st)))
			}
			e.P("def payloadBody : List String := %s", tl.LeanStrList(l))
			// the padding strip of RFC 3550 5.1 as the model has it: the count octet n is honoured
			// when 0 < n <= size of the area after the header (a padding-only packet included)
			cs := Conds(fd)
			strips := has(cs, "if p.Padding && end > p.PayloadOffset") && has(cs, "if n > 0 && n <= end-p.PayloadOffset")
			inits, subs, rets := 0, 0, 0
			ast.Inspect(fd.Body, func(n ast.Node) bool {
				switch x := n.(type) {
				case *ast.IfStmt:
					if x.Init != nil && oneLine(tl.Src(x.Init)) == "n := int(p.Data[end-1])" {
						inits++
					}
				case *ast.AssignStmt:
					if oneLine(tl.Src(x)) == "end -= n" {
						subs++
					}
				case *ast.ReturnStmt:
					if len(x.Results) == 1 && tl.Src(x.Results[0]) == "p.Data[p.PayloadOffset:end]" {
						rets++
					}
				}
				return true
			})
			e.P("/-- Payload() strips the RTP padding: count octet n honoured when 0 < n <= area after the header -/")
			e.P("def payloadStripsPadding : Bool := %s", tl.LeanBool(strips && inits == 1 && subs == 1 && rets == 1))
		} else {
			e.Unknown("Packet.Payload")
			e.P("def payloadBody : List String := []")
			e.P("def payloadStripsPadding : Bool := false")
		}
	})
}



var registered = map[string]bool{}

func registerOnce(name string, fn func(*tl.Emitter)) {
	if !registered[name] {
		registered[name] = true
		tl.Register(name, fn)
	}
}
