package main

import (
	. "verifharness/tlib"
	"verifharness/tr/c09/tsfacts"
)

func main() {
	tsfacts.Register_()
	Main()
}
