// Package tsfacts registers the TsFacts generator (shared by the C09 and C10 translators).
package tsfacts

import (
	"fmt"
	"go/ast"
	"go/token"
	"strconv"
	"strings"

	. "verifharness/tlib"
)

func intLit(e ast.Expr) (int64, bool) {
	if p, ok := e.(*ast.ParenExpr); ok {
		return intLit(p.X)
	}
	lit, ok := e.(*ast.BasicLit)
	if !ok || lit.Kind != token.INT {
		return 0, false
	}
	v, err := strconv.ParseInt(lit.Value, 0, 64)
	return v, err == nil
}

// byteList: a composite literal of integer literals
func byteList(e ast.Expr) ([]int64, bool) {
	cl, ok := e.(*ast.CompositeLit)
	if !ok {
		return nil, false
	}
	var out []int64
	for _, el := range cl.Elts {
		v, ok := intLit(el)
		if !ok || v < 0 || v > 255 {
			return nil, false
		}
		out = append(out, v)
	}
	return out, true
}

func leanBytes(bs []int64) string {
	s := make([]string, len(bs))
	for i, b := range bs {
		s[i] = fmt.Sprintf("0x%02x", b)
	}
	// wrap lines
	var b strings.Builder
	b.WriteString("[")
	for i, x := range s {
		if i > 0 {
			b.WriteString(", ")
			if i%16 == 0 {
				b.WriteString("\n  ")
			}
		}
		b.WriteString(x)
	}
	b.WriteString("]")
	return b.String()
}

func leanNats(ns []int64) string {
	s := make([]string, len(ns))
	for i, n := range ns {
		s[i] = strconv.FormatInt(n, 10)
	}
	return "[" + strings.Join(s, ", ") + "]"
}

// h264Const resolves h264.<Name> (or a literal) to its value
func h264Const(e ast.Expr) (int64, bool) {
	if v, ok := intLit(e); ok {
		return v, true
	}
	sel, ok := e.(*ast.SelectorExpr)
	if !ok || Src(sel.X) != "h264" {
		return 0, false
	}
	return intLit(TopValue(Parse("av/codec/h264/const.go"), sel.Sel.Name))
}

// orChain flattens a || b || c
func orChain(e ast.Expr) []ast.Expr {
	if p, ok := e.(*ast.ParenExpr); ok {
		return orChain(p.X)
	}
	if b, ok := e.(*ast.BinaryExpr); ok && b.Op == token.LOR {
		return append(orChain(b.X), orChain(b.Y)...)
	}
	return []ast.Expr{e}
}

// eqTypes: `h264.A == v || h264.B == v ...` → values
func eqTypes(cond ast.Expr, v string) ([]int64, bool) {
	var out []int64
	for _, t := range orChain(cond) {
		b, ok := t.(*ast.BinaryExpr)
		if !ok || b.Op != token.EQL {
			return nil, false
		}
		var c ast.Expr
		switch {
		case Src(b.Y) == v:
			c = b.X
		case Src(b.X) == v:
			c = b.Y
		default:
			return nil, false
		}
		n, ok := h264Const(c)
		if !ok {
			return nil, false
		}
		out = append(out, n)
	}
	return out, true
}

// Register adds the TsFacts generator
func Register_() {
	Register("TsFacts", func(e *Emitter) {
		wr := Parse("av/format/mpegts/writer.go")
		fr := Parse("av/format/mpegts/frame.go")
		// ---- the PAT/PMT block
		hdr, ok := byteList(TopValue(wr, "mpegtsHeader"))
		if !ok {
			e.Unknown("mpegtsHeader")
		}
		e.P("/-- av/format/mpegts/writer.go: mpegtsHeader -/")
		e.P("def mpegtsHeader : List UInt8 := %s", leanBytes(hdr))
		// ---- PIDs and stream ids
		for _, c := range []string{"tsVideoPid", "tsAudioPid", "tsAudioAac", "tsVideoAvc"} {
			v, ok := intLit(TopValue(fr, c))
			if !ok {
				e.Unknown(c)
			}
			e.P("def %s : Nat := %d", c, v)
		}
		// ---- prepareAvcHeader
		var aud []int64
		var audTypes, psTypes []int64
		skipLo, skipHi := int64(1), int64(0)
		okAud, okAT, okPS, okSkip := false, false, false, true
		if fd := FuncDecl(fr, "Frame", "prepareAvcHeader"); fd != nil && fd.Body != nil {
			for _, st := range fd.Body.List {
				switch s := st.(type) {
				case *ast.AssignStmt:
					if len(s.Lhs) == 1 && Src(s.Lhs[0]) == "audNal" && len(s.Rhs) == 1 {
						aud, okAud = byteList(s.Rhs[0])
					}
				case *ast.IfStmt:
					body := strings.Join(strings.Fields(Src(s.Body)), " ")
					switch {
					case body == "{ frame.Header = append(frame.Header, audNal...) }" && s.Else == nil:
						audTypes, okAT = eqTypes(s.Cond, "nalUnitType")
					case strings.Contains(body, "sps...") || strings.Contains(body, "pps..."):
						want := "{ if len(sps) > 0 { frame.Header = append(frame.Header, audNal[:4]...) frame.Header = append(frame.Header, sps...) } " +
							"if len(pps) > 0 { frame.Header = append(frame.Header, audNal[:4]...) frame.Header = append(frame.Header, pps...) } }"
						stripped := stripComments(s.Body)
						if stripped == want && s.Else == nil {
							psTypes, okPS = eqTypes(s.Cond, "nalUnitType")
						}
					case body == "{ return }":
						// nalUnitType >= h264.A && nalUnitType <= h264.B
						okSkip = false
						if b, ok := s.Cond.(*ast.BinaryExpr); ok && b.Op == token.LAND {
							l, ok1 := b.X.(*ast.BinaryExpr)
							r, ok2 := b.Y.(*ast.BinaryExpr)
							if ok1 && ok2 && l.Op == token.GEQ && r.Op == token.LEQ && Src(l.X) == "nalUnitType" && Src(r.X) == "nalUnitType" {
								lo, o1 := h264Const(l.Y)
								hi, o2 := h264Const(r.Y)
								if o1 && o2 {
									skipLo, skipHi, okSkip = lo, hi, true
								}
							}
						}
					}
				}
			}
		}
		if !okAud {
			e.Unknown("prepareAvcHeader.audNal")
		}
		if !okAT {
			e.Unknown("prepareAvcHeader.audTypes")
		}
		if !okPS {
			e.Unknown("prepareAvcHeader.paramSets")
		}
		if !okSkip {
			e.Unknown("prepareAvcHeader.skipRange")
		}
		e.P("/-- frame.go prepareAvcHeader: the access unit delimiter with its 4-byte start code -/")
		e.P("def audNal : List UInt8 := %s", leanBytes(aud))
		e.P("/-- NAL types in front of which the delimiter is inserted -/")
		e.P("def avcAudTypes : List Nat := %s", leanNats(audTypes))
		e.P("/-- NAL types in front of which SPS and PPS (each with audNal[:4]) are inserted -/")
		e.P("def avcParamSetTypes : List Nat := %s", leanNats(psTypes))
		e.P("/-- `if nalUnitType >= lo && nalUnitType <= hi { return }` before the sample start code (absent: 1, 0) -/")
		e.P("def avcSkipLo : Nat := %d", skipLo)
		e.P("def avcSkipHi : Nat := %d", skipHi)
		// ---- h264_packetizer.go: key: nalType == h264.NalIdrSlice
		keyType, okKey := int64(0), false
		pk := Parse("av/format/mpegts/h264_packetizer.go")
		if fd := FuncDecl(pk, "h264Packetizer", "Packetize"); fd != nil {
			ast.Inspect(fd, func(n ast.Node) bool {
				if kv, ok := n.(*ast.KeyValueExpr); ok && Src(kv.Key) == "key" {
					if ts, ok := eqTypes(kv.Value, "nalType"); ok && len(ts) == 1 {
						keyType, okKey = ts[0], true
					}
				}
				return true
			})
		}
		if !okKey {
			e.Unknown("h264Packetizer.key")
		}
		e.P("/-- h264_packetizer.go: `key: nalType == h264.NalIdrSlice` -/")
		e.P("def avcKeyType : Nat := %d", keyType)
		// ---- adtsheader.go template
		var adts []int64
		okAdts := false
		if fd := FuncDecl(Parse("av/codec/aac/adtsheader.go"), "", "NewADTSHeader"); fd != nil && fd.Body != nil {
			for _, st := range fd.Body.List {
				if s, ok := st.(*ast.AssignStmt); ok && len(s.Lhs) == 1 && Src(s.Lhs[0]) == "adtsHeader" && s.Tok == token.DEFINE {
					adts, okAdts = byteList(s.Rhs[0])
				}
			}
		}
		if !okAdts || len(adts) != 7 {
			e.Unknown("NewADTSHeader.template")
		}
		e.P("/-- adtsheader.go NewADTSHeader: the template bytes -/")
		e.P("def adtsTemplate : List UInt8 := %s", leanBytes(adts))
		// ---- writer.go WriteMpegtsFrame: PES length limit, PCR adaptation field
		limit, afLen, afFlags := int64(0), int64(0), int64(0)
		okLimit, okAf := false, false
		if fd := FuncDecl(wr, "Writer", "WriteMpegtsFrame"); fd != nil {
			ast.Inspect(fd, func(n ast.Node) bool {
				s, ok := n.(*ast.IfStmt)
				if !ok {
					return true
				}
				if b, ok := s.Cond.(*ast.BinaryExpr); ok && b.Op == token.GTR && Src(b.X) == "pesSize" {
					if v, ok := intLit(b.Y); ok && strings.Join(strings.Fields(stripComments(s.Body)), " ") == "{ pesSize = 0 }" {
						limit, okLimit = v, true
					}
				}
				if Src(s.Cond) == "frame.key" {
					var lits []int64
					for _, st := range s.Body.List {
						if a, ok := st.(*ast.AssignStmt); ok && a.Tok == token.ASSIGN && Src(a.Lhs[0]) == "pkt[p]" {
							if v, ok := intLit(a.Rhs[0]); ok {
								lits = append(lits, v)
							}
						}
					}
					if len(lits) == 2 {
						afLen, afFlags, okAf = lits[0], lits[1], true
					}
				}
				return true
			})
		}
		if !okLimit {
			e.Unknown("WriteMpegtsFrame.pesLimit")
		}
		if !okAf {
			e.Unknown("WriteMpegtsFrame.pcrField")
		}
		e.P("/-- writer.go: `if pesSize > 0xffff { pesSize = 0 }` -/")
		e.P("def pesLengthLimit : Nat := %d", limit)
		e.P("/-- writer.go, key frames: adaptation_field_length and flags of the PCR field -/")
		e.P("def pcrFieldLength : Nat := %d", afLen)
		e.P("def pcrFieldFlags : Nat := %d", afFlags)
	})
}

// stripComments prints a node without comments, whitespace-normalised
func stripComments(n ast.Node) string {
	return strings.Join(strings.Fields(Src(n)), " ")
}
