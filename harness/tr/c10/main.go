package main

import (
	"go/ast"
	"go/token"
	"strconv"
	"strings"

	. "verifharness/tlib"
	"verifharness/tr/c09/tsfacts"
)

func main() {
	tsfacts.Register_()
	Main()
}

func intConst(f *ast.File, name string) (int64, bool) {
	lit, ok := TopValue(f, name).(*ast.BasicLit)
	if !ok || lit.Kind != token.INT {
		return 0, false
	}
	v, err := strconv.ParseInt(lit.Value, 0, 64)
	return v, err == nil
}

func norm(n ast.Node) string { return strings.Join(strings.Fields(Src(n)), " ") }

// isCopyOf: append([]byte(nil), X...) / append([]byte{}, X...) / append(make([]byte, 0, ...), X...)
func isCopyOf(e ast.Expr, x string) bool {
	call, ok := e.(*ast.CallExpr)
	if !ok || Src(call.Fun) != "append" || len(call.Args) != 2 || !call.Ellipsis.IsValid() {
		return false
	}
	if norm(call.Args[1]) != x {
		return false
	}
	switch a := norm(call.Args[0]); {
	case a == "[]byte(nil)", a == "[]byte{}", strings.HasPrefix(a, "make([]byte, 0"):
		return true
	}
	return false
}

// lockPrefix: does the body take recv.l.<lock>() and defer recv.l.<unlock>() before anything
// that touches pl.segments?
func lockPrefix(fd *ast.FuncDecl, lock, unlock string) bool {
	if fd == nil || fd.Body == nil {
		return false
	}
	locked, deferred := false, false
	for _, st := range fd.Body.List {
		s := norm(st)
		switch {
		case s == "pl.l."+lock+"()":
			locked = true
		case s == "defer pl.l."+unlock+"()":
			if !locked {
				return false
			}
			deferred = true
		default:
			if strings.Contains(s, "pl.segments") || strings.Contains(s, "pl.clearSegments") {
				return locked && deferred
			}
		}
	}
	return locked && deferred
}

func init() {
	Register("HlsFacts", func(e *Emitter) {
		sgF := Parse("av/format/hls/segmentgenerator.go")
		plF := Parse("av/format/hls/playlist.go")
		jiF := Parse("av/format/hls/aac_jitter.go")
		sfF := Parse("av/format/hls/segmentfile.go")
		aacF := Parse("av/codec/aac/const.go")
		for _, c := range []struct {
			f    *ast.File
			name string
			doc  string
		}{
			{plF, "hlsRemainSegments", "playlist.go"},
			{sgF, "hlsSegmentMinDurationMs", "segmentgenerator.go"},
			{sgF, "hlsAacDelay", "segmentgenerator.go"},
			{jiF, "hlsConfDefaultAacSync", "aac_jitter.go"},
			{aacF, "SamplesPerFrame", "av/codec/aac/const.go"},
		} {
			v, ok := intConst(c.f, c.name)
			if !ok {
				e.Unknown(c.name)
			}
			e.P("/-- %s -/", c.doc)
			e.P("def %s : Nat := %d", lowerName(c.name), v)
		}
		// memorySegmentFile.get: alias or copy of the pooled buffer?
		copies, ok := false, false
		if fd := FuncDecl(sfF, "memorySegmentFile", "get"); fd != nil && fd.Body != nil {
			var dataRhs ast.Expr
			var ret *ast.ReturnStmt
			for _, st := range fd.Body.List {
				switch s := st.(type) {
				case *ast.AssignStmt:
					if len(s.Lhs) == 1 && Src(s.Lhs[0]) == "data" && len(s.Rhs) == 1 {
						dataRhs = s.Rhs[0]
					}
				case *ast.ReturnStmt:
					ret = s
				}
			}
			if dataRhs != nil && ret != nil && norm(ret) == "return bytes.NewReader(data), len(data), nil" {
				switch {
				case norm(dataRhs) == "mf.file.Bytes()":
					copies, ok = false, true
				case isCopyOf(dataRhs, "mf.file.Bytes()"):
					copies, ok = true, true
				}
			}
		}
		if !ok {
			e.Unknown("memorySegmentFile.get")
		}
		e.P("/-- segmentfile.go: memorySegmentFile.get wraps a private copy of the pooled buffer's bytes (false: the bytes themselves) -/")
		e.P("def memoryGetCopies : Bool := %s", LeanBool(copies))
		// Playlist.M3u8: return value aliases the pooled buffer?
		mcopies, mok := false, false
		m3 := FuncDecl(plF, "Playlist", "M3u8")
		if m3 != nil && m3.Body != nil {
			pooled := false
			for _, st := range m3.Body.List {
				if norm(st) == "defer m3u8Pool.Put(w)" {
					pooled = true
				}
			}
			if last, isRet := m3.Body.List[len(m3.Body.List)-1].(*ast.ReturnStmt); isRet && len(last.Results) == 2 {
				switch {
				case norm(last.Results[0]) == "w.Bytes()" && pooled:
					mcopies, mok = false, true
				case norm(last.Results[0]) == "w.Bytes()" && !pooled:
					mcopies, mok = true, true // buffer never recycled: the bytes are the caller's
				case isCopyOf(last.Results[0], "w.Bytes()"):
					mcopies, mok = true, true
				}
			}
		}
		if !mok {
			e.Unknown("Playlist.M3u8.result")
		}
		e.P("/-- playlist.go: M3u8 returns bytes that no later call can overwrite -/")
		e.P("def m3u8Copies : Bool := %s", LeanBool(mcopies))
		// locks around every access to pl.segments
		e.P("/-- playlist.go: pl.l is held (write lock) in addSegment and Close, (read lock) in M3u8 and Segment, before pl.segments is touched -/")
		e.P("def lockAddSegment : Bool := %s", LeanBool(lockPrefix(FuncDecl(plF, "Playlist", "addSegment"), "Lock", "Unlock")))
		e.P("def lockClose : Bool := %s", LeanBool(lockPrefix(FuncDecl(plF, "Playlist", "Close"), "Lock", "Unlock")))
		e.P("def rlockM3u8 : Bool := %s", LeanBool(lockPrefix(m3, "RLock", "RUnlock")))
		e.P("def rlockSegment : Bool := %s", LeanBool(lockPrefix(FuncDecl(plF, "Playlist", "Segment"), "RLock", "RUnlock")))
		// persistentSegmentFile.close: Flush before Close
		flush := false
		if fd := FuncDecl(sfF, "persistentSegmentFile", "close"); fd != nil && fd.Body != nil {
			iFlush, iClose := -1, -1
			for i, st := range fd.Body.List {
				switch norm(st) {
				case "pf.buff.Flush()":
					iFlush = i
				case "pf.file.Close()":
					iClose = i
				}
			}
			flush = iFlush >= 0 && iClose > iFlush
		}
		e.P("/-- segmentfile.go: persistentSegmentFile.close flushes the bufio.Writer before closing the file -/")
		e.P("def persistentFlushBeforeClose : Bool := %s", LeanBool(flush))
		// M3u8: the token written into the segment URIs is url.QueryEscape(token)
		escaped, eok := false, false
		if m3 != nil && m3.Body != nil {
			reassigned, rawUse, escUse := false, false, false
			ast.Inspect(m3.Body, func(n ast.Node) bool {
				switch x := n.(type) {
				case *ast.AssignStmt:
					if len(x.Lhs) == 1 && Src(x.Lhs[0]) == "token" && len(x.Rhs) == 1 {
						if norm(x.Rhs[0]) == "url.QueryEscape(token)" && x.Tok == token.ASSIGN {
							reassigned = true
						} else {
							rawUse = true // some other rewriting of the token: not recognised
						}
					}
				case *ast.CallExpr:
					if Src(x.Fun) == "fmt.Fprintf" {
						for _, a := range x.Args[1:] {
							switch norm(a) {
							case "token":
								if !reassigned {
									rawUse = true
								}
							case "url.QueryEscape(token)":
								escUse = true
							}
						}
					}
				}
				return true
			})
			switch {
			case rawUse && !escUse && !reassigned:
				escaped, eok = false, true
			case !rawUse && (reassigned || escUse):
				escaped, eok = true, true
			}
		}
		if !eok {
			e.Unknown("Playlist.M3u8.token")
		}
		e.P("/-- playlist.go: M3u8 writes the caller's token into the segment URIs through url.QueryEscape -/")
		e.P("def m3u8TokenEscaped : Bool := %s", LeanBool(escaped))
		// NewSegmentGenerator / flushFrame: the first segment takes its start time from its first frame
		first, fok := false, false
		{
			sets := false
			if fd := FuncDecl(sgF, "", "NewSegmentGenerator"); fd != nil && fd.Body != nil {
				for _, st := range fd.Body.List {
					if norm(st) == "sg.startPending = true" {
						sets = true
					}
				}
			}
			takes, mentions := false, false
			if fd := FuncDecl(sgF, "SegmentGenerator", "flushFrame"); fd != nil && fd.Body != nil && len(fd.Body.List) > 0 {
				if is, ok := fd.Body.List[0].(*ast.IfStmt); ok && norm(is.Cond) == "sg.startPending" && is.Else == nil && len(is.Body.List) == 2 {
					a, b := norm(is.Body.List[0]), norm(is.Body.List[1])
					if (a == "sg.startPending = false" && b == "sg.current.segmentStartPts = frame.Pts") ||
						(b == "sg.startPending = false" && a == "sg.current.segmentStartPts = frame.Pts") {
						takes = true
					}
				}
				mentions = strings.Contains(Src(fd), "startPending")
			}
			anywhere := strings.Contains(Src(sgF), "startPending")
			switch {
			case sets && takes:
				first, fok = true, true
			case !anywhere && !mentions:
				first, fok = false, true // the code before the fix: segmentOpen(0)
			}
		}
		if !fok {
			e.Unknown("SegmentGenerator.startPending")
		}
		e.P("/-- segmentgenerator.go: NewSegmentGenerator sets startPending and flushFrame gives the open segment the PTS of the first frame written -/")
		e.P("def firstSegmentStartsAtFirstFrame : Bool := %s", LeanBool(first))
		// config.HlsFragment(): the smallest fragment length the server ever configures
		minFrag, mok2 := int64(0), false
		if fd := FuncDecl(Parse("config/global.go"), "", "HlsFragment"); fd != nil && fd.Body != nil && len(fd.Body.List) == 2 {
			if is, ok := fd.Body.List[0].(*ast.IfStmt); ok && is.Else == nil && len(is.Body.List) == 1 {
				cond := norm(is.Cond)
				const pre = "globalC == nil || globalC.HlsFragment < "
				if strings.HasPrefix(cond, pre) && norm(fd.Body.List[1]) == "return globalC.HlsFragment" {
					if v, err := strconv.ParseInt(cond[len(pre):], 0, 64); err == nil && norm(is.Body.List[0]) == "return "+cond[len(pre):] {
						minFrag, mok2 = v, true
					}
				}
			}
		}
		if !mok2 {
			e.Unknown("config.HlsFragment")
		}
		e.P("/-- config/global.go: HlsFragment() returns max(configured value, this) -/")
		e.P("def hlsFragmentMin : Nat := %d", minFrag)
		// segmentClose: the finished segment's file is closed (for a persistent file: flushed) by a plain
		// statement BEFORE the segment enters the playlist — a client can fetch it from that moment on
		closedFirst, cok := false, false
		if fd := FuncDecl(sgF, "SegmentGenerator", "segmentClose"); fd != nil && fd.Body != nil {
			iClose, iDefer, iList, nClose, nList := -1, -1, -1, 0, 0
			for i, st := range fd.Body.List {
				ast.Inspect(st, func(n ast.Node) bool {
					if c, ok := n.(*ast.CallExpr); ok {
						switch norm(c) {
						case "curr.file.close()":
							nClose++
							switch st.(type) {
							case *ast.ExprStmt:
								iClose = i
							case *ast.DeferStmt:
								iDefer = i
							default:
								nClose += 100 // inside some other statement: not recognised
							}
						case "sg.playlist.addSegment(curr)":
							nList++
							iList = i
						}
					}
					return true
				})
			}
			switch {
			case nClose == 1 && nList == 1 && iClose >= 0 && iClose < iList:
				closedFirst, cok = true, true
			case nClose == 1 && nList == 1 && (iDefer >= 0 || iClose > iList):
				closedFirst, cok = false, true // closed when the function returns / after the listing
			}
		}
		if !cok {
			e.Unknown("SegmentGenerator.segmentClose.order")
		}
		e.P("/-- segmentgenerator.go segmentClose: curr.file.close() is a plain statement before sg.playlist.addSegment(curr) (false: deferred or after it) -/")
		e.P("def segmentClosedBeforeListed : Bool := %s", LeanBool(closedFirst))
		// the call order of reapSegment: close, open, flush audio
		order := []string{}
		if fd := FuncDecl(sgF, "SegmentGenerator", "reapSegment"); fd != nil {
			ast.Inspect(fd, func(n ast.Node) bool {
				if c, ok := n.(*ast.CallExpr); ok {
					if s, ok := c.Fun.(*ast.SelectorExpr); ok && Src(s.X) == "sg" && s.Sel.Name != "verifPoint" {
						order = append(order, s.Sel.Name) // (verifPoint: the harness's schedule point, a no-op without build tag verif)
					}
				}
				return true
			})
		}
		e.P("/-- segmentgenerator.go reapSegment: the methods called on sg, in order -/")
		e.P("def reapOrder : List String := %s", LeanStrList(order))
	})
}

func lowerName(s string) string {
	if s == "SamplesPerFrame" {
		return "aacSamplesPerFrame"
	}
	return s
}
