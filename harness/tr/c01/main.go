// Facts for C01–C04 (the media fan-out): NAL-type constants used by the caches, the
// backlog limit, and the event programs (call orders, locks) of the functions the LTS
// model treats as atomic steps.
package main

import (
	"go/ast"
	"strconv"

	. "verifharness/tlib"
)

func main() { Main() }

func init() {
	Register("MediaFacts", func(e *Emitter) {
		h264 := Parse("av/codec/h264/const.go")
		hevc := Parse("av/codec/hevc/const.go")
		c := func(f *ast.File, pkg, name string) {
			v, ok := ConstInt(f, name)
			if !ok {
				e.Unknown(pkg + "." + name)
			}
			e.P("def %s%s : Nat := %d", pkg, name, v)
		}
		for _, n := range []string{"NalSps", "NalPps", "NalIdrSlice", "NalStapaInRtp", "NalStapbInRtp", "NalMtap16InRtp", "NalMtap24InRtp", "NalFuAInRtp", "NalFuBInRtp"} {
			c(h264, "h264", n)
		}
		for _, n := range []string{"NalVps", "NalSps", "NalPps", "NalBlaWLp", "NalCraNut", "NalStapInRtp", "NalFuInRtp"} {
			c(hevc, "hevc", n)
		}
		// maxQLen: composite literal field in Stream.startConsume
		st := Parse("media/stream.go")
		maxQ, ok := 0, false
		if fd := FuncDecl(st, "Stream", "startConsume"); fd != nil {
			ast.Inspect(fd.Body, func(n ast.Node) bool {
				if kv, isKV := n.(*ast.KeyValueExpr); isKV && Src(kv.Key) == "maxQLen" {
					if lit, isLit := kv.Value.(*ast.BasicLit); isLit {
						if v, err := strconv.Atoi(lit.Value); err == nil {
							maxQ, ok = v, true
						}
					}
				}
				return true
			})
		}
		if !ok {
			e.Unknown("maxQLen")
		}
		e.P("def maxQLen : Nat := %d", maxQ)
		// event programs
		prog := func(lean, file, recv, fn string) {
			fd := FuncDecl(Parse(file), recv, fn)
			if fd == nil {
				e.Unknown(recv + "." + fn)
			}
			e.P("/-- %s: %s.%s -/", file, recv, fn)
			e.P("def %s : List String := %s", lean, LeanStrList(EventProgram(fd)))
		}
		prog("progWriteRtpPacket", "media/stream.go", "Stream", "WriteRtpPacket")
		prog("progWriteFlvTag", "media/stream.go", "Stream", "WriteFlvTag")
		prog("progCacheAndSend", "media/stream.go", "Stream", "cacheAndSend")
		prog("progStartConsume", "media/stream.go", "Stream", "startConsume")
		prog("progStopConsume", "media/stream.go", "Stream", "StopConsume")
		prog("progStreamClose", "media/stream.go", "Stream", "close")
		prog("progSendToAll", "media/consumptions.go", "consumptions", "SendToAll")
		prog("progRemoveAndCloseAll", "media/consumptions.go", "consumptions", "RemoveAndCloseAll")
		prog("progAdd", "media/consumptions.go", "consumptions", "Add")
		prog("progRemove", "media/consumptions.go", "consumptions", "Remove")
		prog("progConsClose", "media/consumption.go", "consumption", "Close")
		prog("progConsSend", "media/consumption.go", "consumption", "send")
		prog("progConsSendGop", "media/consumption.go", "consumption", "sendGop")
		prog("progConsConsume", "media/consumption.go", "consumption", "consume")
		prog("progH264CachePack", "media/cache/h264cache.go", "H264Cache", "CachePack")
		prog("progH264PushTo", "media/cache/h264cache.go", "H264Cache", "PushTo")
		prog("progHevcCachePack", "media/cache/hevccache.go", "HevcCache", "CachePack")
		prog("progH264CacheReset", "media/cache/h264cache.go", "H264Cache", "Reset")
		prog("progHevcCacheReset", "media/cache/hevccache.go", "HevcCache", "Reset")
		conds := func(lean, file, recv, fn string) {
			fd := FuncDecl(Parse(file), recv, fn)
			if fd == nil {
				e.Unknown(recv + "." + fn)
			}
			e.P("/-- %s: %s.%s — its `if` conditions, in source order -/", file, recv, fn)
			e.P("def %s : List String := %s", lean, LeanStrList(Conds(fd)))
		}
		// the payload classifiers, which Model/MediaCache.lean mirrors statement by statement: any edit shows
		bodyHash := func(lean, file, recv, fn string) {
			fd := FuncDecl(Parse(file), recv, fn)
			if fd == nil {
				e.Unknown(recv + "." + fn)
			}
			e.P("/-- %s: %s.%s — FNV-1a of the body as printed by go/printer (no comments) -/", file, recv, fn)
			e.P("def %s : Nat := %d", lean, BodyHash(fd))
		}
		bodyHash("hashH264PayloadType", "media/cache/h264cache.go", "H264Cache", "getPalyloadType")
		bodyHash("hashH264NalType", "media/cache/h264cache.go", "H264Cache", "nalType")
		bodyHash("hashHevcPayloadType", "media/cache/hevccache.go", "HevcCache", "getPalyloadType")
		bodyHash("hashHevcNalType", "media/cache/hevccache.go", "HevcCache", "nalType")
		bodyHash("hashH264KeyFragment", "media/cache/h264cache.go", "H264Cache", "keyFragment")
		bodyHash("hashHevcKeyFragment", "media/cache/hevccache.go", "HevcCache", "keyFragment")
		conds("condsH264CachePack", "media/cache/h264cache.go", "H264Cache", "CachePack")
		conds("condsHevcCachePack", "media/cache/hevccache.go", "HevcCache", "CachePack")
		conds("condsConsSend", "media/consumption.go", "consumption", "send")
		prog("progHevcPushTo", "media/cache/hevccache.go", "HevcCache", "PushTo")
		prog("progFlvCachePack", "media/cache/flvcache.go", "FlvCache", "CachePack")
		prog("progFlvPushTo", "media/cache/flvcache.go", "FlvCache", "PushTo")
		// the three converter workers (same flag + queue pattern as consumption)
		prog("progDemuxerClose", "av/format/rtp/demuxer.go", "Demuxer", "Close")
		prog("progDemuxerProcess", "av/format/rtp/demuxer.go", "Demuxer", "process")
		prog("progFlvMuxerClose", "av/format/flv/muxer.go", "Muxer", "Close")
		prog("progFlvMuxerProcess", "av/format/flv/muxer.go", "Muxer", "process")
		prog("progTsMuxerClose", "av/format/mpegts/muxer.go", "Muxer", "Close")
		prog("progTsMuxerProcess", "av/format/mpegts/muxer.go", "Muxer", "process")
		// the delivery side never writes through the shared packet / tag (C01 "unmodified")
		mut := func(lean, file, recv, fn, through string) {
			fd := FuncDecl(Parse(file), recv, fn)
			if fd == nil {
				e.Unknown(recv + "." + fn)
			}
			if through == "<recv>" {
				through = RecvName(fd)
			}
			if through == "<param0>" && fd != nil && fd.Type.Params != nil && len(fd.Type.Params.List) > 0 && len(fd.Type.Params.List[0].Names) > 0 {
				through = fd.Type.Params.List[0].Names[0].Name // the Pack handed to the consumer; aliases (p2 := p.(*T)) are followed
			}
			e.P("/-- %s: %s.%s — writes through `%s` -/", file, recv, fn, through)
			e.P("def %s : List String := %s", lean, LeanStrList(Mutations(fd, through)))
		}
		mut("mutPacketWrite", "av/format/rtp/packet.go", "Packet", "Write", "<recv>")
		mut("mutTcpConsume", "service/rtsp/session_roles.go", "tcpConsumer", "Consume", "<param0>")
		mut("mutUdpConsume", "service/rtsp/session_roles.go", "udpConsumer", "Consume", "<param0>")
		mut("mutWspConsume", "service/wsp/session.go", "Session", "Consume", "<param0>")
		mut("mutMulticastConsume", "service/rtsp/multicast_proxy.go", "multicastProxy", "Consume", "<param0>")
		mut("mutHttpFlvConsume", "service/flv/httpflv.go", "httpFlvConsumer", "Consume", "<param0>")
		mut("mutWsFlvConsume", "service/flv/wsflv.go", "wsFlvConsumer", "Consume", "<param0>")
		mut("mutFlvWriteTag", "av/format/flv/flv.go", "Writer", "WriteFlvTag", "tag")
		mut("mutFlvWriteTagFn", "av/format/flv/tag.go", "", "writeTag", "tag")
		// per-protocol connection counters of the service entry points (C03)
		prog("progRtspSessionProcess", "service/rtsp/session.go", "Session", "process")
		prog("progPullPlayStream", "service/rtsp/pull_client.go", "PullClient", "playStream")
		prog("progWspSessionProcess", "service/wsp/session.go", "Session", "process")
		prog("progHttpFlvConsume", "service/flv/httpflv.go", "", "ConsumeByHTTP")
		prog("progWsFlvConsume", "service/flv/wsflv.go", "", "ConsumeByWebsocket")
	})
}
