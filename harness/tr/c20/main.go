package main

import (
	"go/ast"
	"strings"

	. "verifharness/tlib"
)

func main() { Main() }

// calls returns the tracked calls inside n in source order; "defer "/"go " prefixes mark calls
// that are the operand of a defer / go statement.
func calls(n ast.Node, tracked func(string) bool) []string {
	var out []string
	pre := map[*ast.CallExpr]string{}
	ast.Inspect(n, func(x ast.Node) bool {
		switch v := x.(type) {
		case *ast.DeferStmt:
			pre[v.Call] = "defer "
		case *ast.GoStmt:
			pre[v.Call] = "go "
		case *ast.CallExpr:
			name := Src(v.Fun)
			if tracked(name) {
				out = append(out, pre[v]+name)
			}
		}
		return true
	})
	return out
}

// sessionSaves: in source order, "recv" for every c.receiveResponse() and "save" for every assignment
// `c.rsession = <resp>.Header.Get(FieldSession)`
func sessionSaves(n *ast.BlockStmt) []string {
	var out []string
	if n == nil {
		return out
	}
	ast.Inspect(n, func(x ast.Node) bool {
		switch v := x.(type) {
		case *ast.CallExpr:
			if name := Src(v.Fun); name == "c.receiveResponse" {
				out = append(out, "recv")
			}
		case *ast.AssignStmt:
			if len(v.Lhs) == 1 && len(v.Rhs) == 1 && Src(v.Lhs[0]) == "c.rsession" && v.Tok.String() == "=" {
				if strings.HasSuffix(Src(v.Rhs[0]), ".Header.Get(FieldSession)") {
					out = append(out, "save")
				}
			}
		}
		return true
	})
	return out
}

func oneOf(names ...string) func(string) bool {
	return func(s string) bool {
		for _, n := range names {
			if s == n || strings.HasSuffix(s, "."+n) {
				return true
			}
		}
		return false
	}
}

func ifConds(n ast.Node) []string {
	var out []string
	ast.Inspect(n, func(x ast.Node) bool {
		if v, ok := x.(*ast.IfStmt); ok {
			out = append(out, Src(v.Cond))
		}
		return true
	})
	return out
}

func body(f *ast.File, recv, name string) *ast.BlockStmt {
	fd := FuncDecl(f, recv, name)
	if fd == nil {
		return nil
	}
	return fd.Body
}

func emitList(e *Emitter, name, doc string, v []string) {
	e.P("/-- %s -/", doc)
	e.P("def %s : List String := %s", name, LeanStrList(v))
}

// firstDefer returns the body of the function literal of the first defer statement of b
func firstDefer(b *ast.BlockStmt) *ast.BlockStmt {
	if b == nil {
		return nil
	}
	for _, st := range b.List {
		if d, ok := st.(*ast.DeferStmt); ok {
			if fl, ok := d.Call.Fun.(*ast.FuncLit); ok {
				return fl.Body
			}
		}
	}
	return nil
}

// without removes the nodes of `sub` from the call list of `whole` (calls of the body outside the deferred function)
func callsOutside(b *ast.BlockStmt, skip *ast.BlockStmt, tracked func(string) bool) []string {
	var out []string
	ast.Inspect(b, func(x ast.Node) bool {
		if x == ast.Node(skip) && skip != nil {
			return false
		}
		switch v := x.(type) {
		case *ast.GoStmt:
			if tracked(Src(v.Call.Fun)) {
				out = append(out, "go "+Src(v.Call.Fun))
			}
			return false
		case *ast.CallExpr:
			if tracked(Src(v.Fun)) {
				out = append(out, Src(v.Fun))
			}
		}
		return true
	})
	return out
}

// guardsOf: the conditions of the if statements enclosing the first call of callee (outermost first)
func guardsOf(b ast.Node, callee string) []string {
	var res []string
	found := false
	var walk func(n ast.Node, guards []string)
	walk = func(n ast.Node, guards []string) {
		if n == nil || found {
			return
		}
		switch v := n.(type) {
		case *ast.IfStmt:
			g := append(append([]string{}, guards...), Src(v.Cond))
			walk(v.Body, g)
			if v.Else != nil {
				walk(v.Else, append(append([]string{}, guards...), "!("+Src(v.Cond)+")"))
			}
			return
		case *ast.CallExpr:
			if Src(v.Fun) == callee {
				res, found = guards, true
				return
			}
		}
		ast.Inspect(n, func(x ast.Node) bool {
			if x == nil || x == n || found {
				return x == n
			}
			walk(x, guards)
			return false
		})
	}
	walk(b, nil)
	return res
}

func contains(l []string, s string) bool {
	for _, x := range l {
		if x == s {
			return true
		}
	}
	return false
}

func index(l []string, s string) int {
	for i, x := range l {
		if x == s {
			return i
		}
	}
	return -1
}

func init() {
	Register("PullFacts", func(e *Emitter) {
		pc := Parse("service/rtsp/pull_client.go")
		if pc == nil {
			e.Unknown("pull_client.go")
		}
		// ---- Open: the request order and the deferred cleanup
		ob := body(pc, "PullClient", "Open")
		od := firstDefer(ob)
		if ob == nil || od == nil {
			e.Unknown("Open")
		}
		var openCalls, openDeferCalls, openDeferConds []string
		if ob != nil {
			openCalls = callsOutside(ob, od, oneOf("connect", "requestHandshake", "requestSDP", "requestSetup", "requestPlay"))
		}
		if od != nil {
			openDeferCalls = calls(od, oneOf("recover", "disconnect", "Errorf"))
			openDeferConds = ifConds(od)
		}
		emitList(e, "openCalls", "PullClient.Open: the steps of the handshake in source order", openCalls)
		emitList(e, "openDeferCalls", "Open's deferred function: tracked calls", openDeferCalls)
		emitList(e, "openDeferConds", "Open's deferred function: if conditions", openDeferConds)
		// every step is followed by `if err != nil { return err }`
		errReturns := 0
		if ob != nil {
			for _, st := range ob.List {
				if is, ok := st.(*ast.IfStmt); ok && Src(is.Cond) == "err != nil" && len(is.Body.List) == 1 {
					if r, ok := is.Body.List[0].(*ast.ReturnStmt); ok && len(r.Results) == 1 && Src(r.Results[0]) == "err" {
						errReturns++
					}
				}
			}
		}
		e.P("/-- Open: number of `if err != nil { return err }` statements at the top level -/")
		e.P("def openErrReturns : Nat := %d", errReturns)
		recovers := len(openDeferCalls) >= 2 && openDeferCalls[0] == "recover" && contains(openDeferCalls, "c.disconnect") &&
			len(openDeferConds) == 2 && openDeferConds[0] == "r := recover(); r != nil" || (len(openDeferConds) == 2 && openDeferConds[0] == "r != nil" && openDeferConds[1] == "err != nil" && index(openDeferCalls, "recover") == 0)
		plain := len(openDeferConds) == 1 && openDeferConds[0] == "err != nil" && !contains(openDeferCalls, "recover")
		if !recovers && !plain {
			e.Unknown("openRecovers")
		}
		e.P("/-- Open's deferred cleanup recovers a panic and treats it as an error -/")
		e.P("def openRecovers : Bool := %s", LeanBool(recovers))

		// ---- requestWithResponse: sends, receives, the auth branches, the status test
		rb := body(pc, "PullClient", "requestWithResponse")
		var rwrCalls, rwrConds []string
		if rb != nil {
			rwrCalls = calls(rb, oneOf("request", "receiveResponse", "DigestAuth", "BasicAuth", "SetDigestAuth", "SetBasicAuth", "trimSessionString"))
			rwrConds = ifConds(rb)
		} else {
			e.Unknown("requestWithResponse")
		}
		emitList(e, "rwrCalls", "requestWithResponse: tracked calls in source order", rwrCalls)
		emitList(e, "rwrConds", "requestWithResponse: if conditions in source order", rwrConds)
		// every response received is followed by `c.rsession = resp.Header.Get(FieldSession)`: the session id of the
		// answer to an authenticated repetition (the one a challenged SETUP hands out) is kept as well
		emitList(e, "rwrSessionSaves", "requestWithResponse: receiveResponse calls (recv) and assignments of the response's Session header to c.rsession (save) in source order", sessionSaves(rb))

		// ---- receiveResponse: deadline before the blocking read
		vb := body(pc, "PullClient", "receiveResponse")
		var recvCalls, recvConds []string
		if vb != nil {
			recvCalls = calls(vb, oneOf("NetTimeout", "SetReadDeadline", "ReadResponse"))
			recvConds = ifConds(vb)
		} else {
			e.Unknown("receiveResponse")
		}
		emitList(e, "recvCalls", "receiveResponse: tracked calls in source order", recvCalls)
		emitList(e, "recvConds", "receiveResponse: if conditions", recvConds)
		dl := index(recvCalls, "c.conn.SetReadDeadline")
		rd := index(recvCalls, "ReadResponse")
		deadline := dl >= 0 && rd > dl && contains(recvConds, "timeout > 0") && index(recvCalls, "config.NetTimeout") == 0 && dl == 1
		if rd < 0 || (dl >= 0 && !deadline) {
			e.Unknown("handshakeDeadline")
		}
		e.P("/-- a read deadline (config.NetTimeout) is set before the handshake's blocking read -/")
		e.P("def handshakeDeadline : Bool := %s", LeanBool(deadline))

		// ---- requestSDP / getSetupURL: the panic guards
		sb := body(pc, "PullClient", "requestSDP")
		var sdpConds []string
		if sb != nil {
			sdpConds = ifConds(sb)
		} else {
			e.Unknown("requestSDP")
		}
		emitList(e, "sdpConds", "requestSDP: if conditions", sdpConds)
		e.P("def formatGuard : Bool := %s", LeanBool(contains(sdpConds, "len(media.Format) == 0")))
		gb := body(pc, "PullClient", "getSetupURL")
		var urlConds []string
		if gb != nil {
			urlConds = ifConds(gb)
		} else {
			e.Unknown("getSetupURL")
		}
		emitList(e, "setupUrlConds", "getSetupURL: if conditions", urlConds)
		safe := contains(urlConds, "strings.HasSuffix(setupURL.Path, \"/\")")
		unsafeIdx := contains(urlConds, "setupURL.Path[len(setupURL.Path)-1] == '/'")
		if safe == unsafeIdx {
			e.Unknown("setupUrlSafe")
		}
		e.P("def setupUrlSafe : Bool := %s", LeanBool(safe && !unsafeIdx))
		// requestSetup: one requestWithResponse per section, guarded by the control attribute
		tb := body(pc, "PullClient", "requestSetup")
		var setupConds, setupCalls []string
		if tb != nil {
			setupConds = ifConds(tb)
			setupCalls = calls(tb, oneOf("getSetupURL", "requestWithResponse"))
		} else {
			e.Unknown("requestSetup")
		}
		emitList(e, "setupConds", "requestSetup: if conditions", setupConds)
		emitList(e, "setupCalls", "requestSetup: tracked calls", setupCalls)

		// ---- requestPlay: the stream is created and playStream started only after the response
		pb := body(pc, "PullClient", "requestPlay")
		var playCalls []string
		if pb != nil {
			playCalls = calls(pb, oneOf("requestWithResponse", "NewStream", "playStream"))
		} else {
			e.Unknown("requestPlay")
		}
		emitList(e, "requestPlayCalls", "requestPlay: tracked calls", playCalls)
		// the stream is built (NewStream starts the conversion workers) only after PLAY was answered with
		// success: statement order  resp, err := requestWithResponse; if err != nil { return err }; … NewStream …; go playStream
		stmtWith := func(callee string) int {
			if pb == nil {
				return -1
			}
			for i, st := range pb.List {
				found := false
				ast.Inspect(st, func(x ast.Node) bool {
					if ce, ok := x.(*ast.CallExpr); ok && (Src(ce.Fun) == callee || strings.HasSuffix(Src(ce.Fun), "."+callee)) {
						found = true
					}
					return !found
				})
				if found {
					return i
				}
			}
			return -1
		}
		iReq, iNew, iGo := stmtWith("requestWithResponse"), stmtWith("NewStream"), stmtWith("playStream")
		errRet := -1
		if pb != nil {
			for i, st := range pb.List {
				if is, ok := st.(*ast.IfStmt); ok && Src(is.Cond) == "err != nil" && len(is.Body.List) == 1 && i > iReq && errRet < 0 {
					if r, ok := is.Body.List[0].(*ast.ReturnStmt); ok && len(r.Results) == 1 && Src(r.Results[0]) == "err" {
						errRet = i
					}
				}
			}
		}
		after := iReq >= 0 && errRet == iReq+1 && iNew > errRet && iGo > iNew
		early := iReq >= 0 && iNew >= 0 && iNew < iReq
		if !after && !early {
			e.Unknown("streamAfterPlay")
		}
		e.P("/-- requestPlay builds the stream only after the PLAY request was answered with success -/")
		e.P("def streamAfterPlay : Bool := %s", LeanBool(after))

		// ---- playStream: registration, counter, loop, deferred cleanup
		lb := body(pc, "PullClient", "playStream")
		ld := firstDefer(lb)
		if lb == nil || ld == nil {
			e.Unknown("playStream")
		}
		var psCalls, psDefer, psConds []string
		loopCond := ""
		if lb != nil {
			psCalls = callsOutside(lb, ld, oneOf("Regist", "RtspConns.Add", "SetReadDeadline", "receive", "newRequest", "request", "NetTimeout", "NetHeartbeatInterval"))
			ast.Inspect(lb, func(x ast.Node) bool {
				if f, ok := x.(*ast.ForStmt); ok && loopCond == "" {
					loopCond = Src(f.Cond)
					psConds = ifConds(f.Body)
				}
				return true
			})
		}
		if ld != nil {
			psDefer = calls(ld, oneOf("recover", "Release", "Unregist", "disconnect"))
		}
		emitList(e, "playStreamCalls", "playStream: tracked calls outside the deferred function", psCalls)
		emitList(e, "playStreamDefer", "playStream: tracked calls of the deferred function", psDefer)
		emitList(e, "playStreamLoopConds", "playStream: if conditions inside the receive loop", psConds)
		e.P("def playStreamLoopCond : String := %s", LeanStr(loopCond))

		// ---- newRequest: when credentials / session are attached
		nb := body(pc, "PullClient", "newRequest")
		var nrConds, nrCalls []string
		if nb != nil {
			nrConds = ifConds(nb)
			nrCalls = calls(nb, oneOf("SetDigestAuth", "SetBasicAuth"))
		} else {
			e.Unknown("newRequest")
		}
		emitList(e, "newRequestConds", "newRequest: if conditions", nrConds)
		emitList(e, "newRequestCalls", "newRequest: auth calls", nrCalls)

		// ---- disconnect / connect
		db := body(pc, "PullClient", "disconnect")
		var dcConds, dcCalls []string
		if db != nil {
			dcConds = ifConds(db)
			dcCalls = calls(db, oneOf("Close"))
		} else {
			e.Unknown("disconnect")
		}
		emitList(e, "disconnectConds", "disconnect: if conditions", dcConds)
		emitList(e, "disconnectCalls", "disconnect: Close calls", dcCalls)
		cb := body(pc, "PullClient", "connect")
		var cnCalls []string
		if cb != nil {
			cnCalls = calls(cb, oneOf("DialTimeout", "NetTimeout", "NewConn"))
		} else {
			e.Unknown("connect")
		}
		emitList(e, "connectCalls", "connect: tracked calls", cnCalls)

		// ---- config: the built-in time-outs the pull runs under (the harness shortens them through the verif override)
		cf := Parse("config/global.go")
		lastReturn := func(fn string) string {
			b := body(cf, "", fn)
			if b == nil || len(b.List) == 0 {
				return ""
			}
			if r, ok := b.List[len(b.List)-1].(*ast.ReturnStmt); ok && len(r.Results) == 1 {
				return Src(r.Results[0])
			}
			return ""
		}
		nt, hb := lastReturn("NetTimeout"), lastReturn("NetHeartbeatInterval")
		if nt == "" || hb == "" {
			e.Unknown("netTimeoutDefault")
		}
		e.P("/-- config.NetTimeout: the value returned when no verif override is set (a read deadline is only set when it is > 0) -/")
		e.P("def netTimeoutDefault : String := %s", LeanStr(nt))
		e.P("/-- config.NetHeartbeatInterval: the built-in keep-alive period -/")
		e.P("def netHeartbeatDefault : String := %s", LeanStr(hb))

		// ---- factory
		ff := Parse("service/rtsp/pull_stream_factory.go")
		fb := body(ff, "pullStreamFactory", "Create")
		var fcCalls, fcConds []string
		if fb != nil {
			fcCalls = calls(fb, oneOf("NewPullClient", "Open"))
			fcConds = ifConds(fb)
		} else {
			e.Unknown("Create")
		}
		emitList(e, "createCalls", "pullStreamFactory.Create: tracked calls", fcCalls)
		emitList(e, "createConds", "pullStreamFactory.Create: if conditions", fcConds)

		// ---- media/global.go: Regist / Unregist run under registLock (used by c20_one_stream)
		gf := Parse("media/global.go")
		lockedFn := func(fn string) bool {
			b := body(gf, "", fn)
			if b == nil || len(b.List) < 2 {
				return false
			}
			first, ok1 := b.List[0].(*ast.ExprStmt)
			second, ok2 := b.List[1].(*ast.DeferStmt)
			return ok1 && ok2 && Src(first.X) == "registLock.Lock()" && Src(second.Call) == "registLock.Unlock()"
		}
		e.P("/-- media.Regist and media.Unregist run entirely under registLock (Lock(); defer Unlock() first) -/")
		e.P("def pullRegistLocked : Bool := %s", LeanBool(lockedFn("Regist") && lockedFn("Unregist")))
		// Unregist closes the stream it is given whatever the registry holds: `s.Close()` is a statement of
		// the function body itself (not nested in an if / loop / closure) and no return / panic / goto /
		// os.Exit occurs anywhere in the statements that precede it.  playStream's deferred clean-up relies on
		// this to close a pulled stream that was replaced in the registry while it still had consumers.
		closesAlways := false
		if b := body(gf, "", "Unregist"); b != nil {
			recv := ""
			if fd := FuncDecl(gf, "", "Unregist"); fd != nil && fd.Type.Params != nil && len(fd.Type.Params.List) == 1 && len(fd.Type.Params.List[0].Names) == 1 {
				recv = fd.Type.Params.List[0].Names[0].Name
			}
			escapes := func(n ast.Node) bool {
				esc := false
				ast.Inspect(n, func(x ast.Node) bool {
					switch v := x.(type) {
					case *ast.FuncLit:
						return false
					case *ast.ReturnStmt:
						esc = true
					case *ast.BranchStmt:
						if v.Tok.String() == "goto" {
							esc = true
						}
					case *ast.CallExpr:
						if f := Src(v.Fun); f == "panic" || f == "os.Exit" || f == "runtime.Goexit" {
							esc = true
						}
					}
					return true
				})
				return esc
			}
			for _, st := range b.List {
				if es, ok := st.(*ast.ExprStmt); ok && recv != "" && Src(es.X) == recv+".Close()" {
					closesAlways = true
					break
				}
				if _, isDefer := st.(*ast.DeferStmt); isDefer {
					continue
				}
				if escapes(st) {
					break
				}
			}
		} else {
			e.Unknown("Unregist")
		}
		e.P("/-- media.Unregist(s) calls s.Close() unconditionally: the call is a statement of the function body and no return / panic / goto precedes it (a replaced or already removed stream is closed as well) -/")
		e.P("def unregistClosesAlways : Bool := %s", LeanBool(closesAlways))
		// GetOrCreate: Get, then route.Match, factory Create, idle task for non-keepalive routes
		var gocCalls []string
		if b := body(gf, "", "GetOrCreate"); b != nil {
			gocCalls = calls(b, oneOf("Get", "Match", "Can", "Create", "runZeroConsumersCloseTask", "CanonicalPath"))
		} else {
			e.Unknown("GetOrCreate")
		}
		emitList(e, "getOrCreateCallsC20", "media.GetOrCreate: tracked calls", gocCalls)
		// the idle-close task is posted exactly for routes without keepalive whose pull succeeded
		var taskGuard []string
		if b := body(gf, "", "GetOrCreate"); b != nil {
			taskGuard = guardsOf(b, "runZeroConsumersCloseTask")
		}
		if len(taskGuard) == 0 {
			e.Unknown("getOrCreateTaskGuardC20")
		}
		emitList(e, "getOrCreateTaskGuardC20", "GetOrCreate: the if conditions enclosing runZeroConsumersCloseTask(s, StreamNoConsumer)", taskGuard)
		taskArgs := ""
		if b := body(gf, "", "GetOrCreate"); b != nil {
			ast.Inspect(b, func(x ast.Node) bool {
				if ce, ok := x.(*ast.CallExpr); ok && Src(ce.Fun) == "runZeroConsumersCloseTask" && len(ce.Args) == 2 {
					taskArgs = Src(ce.Args[0]) + ", " + Src(ce.Args[1])
				}
				return true
			})
		}
		e.P("def getOrCreateTaskArgs : String := %s", LeanStr(taskArgs))

		// ---- the requesters: a nil stream becomes a not-found answer
		type caller struct{ file, recv, fn, lean string }
		for _, c := range []caller{
			{"service/rtsp/session.go", "Session", "onDescribe", "describeNotFound"},
			{"service/rtsp/session.go", "Session", "onPlay", "playNotFound"},
			{"service/flv/httpflv.go", "", "ConsumeByHTTP", "httpFlvNotFound"},
		} {
			f := Parse(c.file)
			b := body(f, c.recv, c.fn)
			res := []string{}
			if b != nil {
				// the if statement right after the GetOrCreate assignment
				for i, st := range b.List {
					if as, ok := st.(*ast.AssignStmt); ok && len(as.Rhs) == 1 && strings.HasPrefix(Src(as.Rhs[0]), "media.GetOrCreate(") && i+1 < len(b.List) {
						if is, ok := b.List[i+1].(*ast.IfStmt); ok {
							res = append(res, Src(is.Cond))
							for _, s := range is.Body.List {
								t := Src(s)
								if strings.Contains(t, "NotFound") {
									res = append(res, "not-found")
								}
								if _, ok := s.(*ast.ReturnStmt); ok {
									res = append(res, "return")
								}
							}
						}
					}
				}
			}
			if len(res) == 0 {
				e.Unknown(c.lean)
			}
			emitList(e, c.lean, c.file+" "+c.fn+": the test after media.GetOrCreate", res)
		}
	})
}
