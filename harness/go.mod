module verifharness

go 1.14

require (
	github.com/cnotch/ipchub v0.0.0
	github.com/cnotch/queue v0.0.0-20201224060551-4191569ce8f6
	github.com/cnotch/xlog v0.0.0-20201208005456-cfda439cd3a0
	github.com/gorilla/websocket v1.4.2
	github.com/pixelbender/go-sdp v1.1.0
)

replace github.com/cnotch/ipchub => /repo
