package depack

import (
	"encoding/base64"
	"encoding/binary"

	. "verifharness/hlib"

	"github.com/cnotch/ipchub/av/codec/h264"
	"github.com/cnotch/ipchub/av/codec/hevc"
)

// parameter sets that real encoders produced (from the repository's own tests)
var (
	H264Sps = mustB64("Z01AH6sSB4CL9wgAAAMACAAAAwGUeMGMTA==", "Z2QAH6zZQFAFuhAAAAMAEAAAAwPI8YMZYA==", "Z2QAM6wspADwAQ+wFSAgICgAAB9IAAdTBO0LFok=")
	H264Pps = [][]byte{{0x68, 0xce, 0x3c, 0x80}, {0x68, 0xeb, 0xe3, 0xcb, 0x22, 0xc0}}
	H265Vps = [][]byte{{0x40, 0x01, 0x0c, 0x01, 0xff, 0xff, 0x01, 0x60, 0x00, 0x00, 0x03, 0x00, 0x90, 0x00, 0x00, 0x03, 0x00, 0x00, 0x03, 0x00, 0x5d, 0x95, 0x98, 0x09}}
	H265Sps = mustB64("QgEBAWAAAAMAkAAAAwAAAwBdoAKAgC0WWVmkkyuAQAAA+kAAF3AC", "QgEBBAgAAAMAnQgAAAMAAF2wAoCALRZZWaSTK4BAAAADAEAAAAeC")
	H265Pps = [][]byte{{0x44, 0x01, 0xc1, 0x72, 0xb4, 0x62, 0x40}}
)

func mustB64(ss ...string) [][]byte {
	var out [][]byte
	for _, s := range ss {
		b, err := base64.StdEncoding.DecodeString(s)
		if err != nil {
			panic(err)
		}
		out = append(out, b)
	}
	return out
}

// SpsDecodes asks the REAL decoder (h264.RawSPS / hevc.H265RawSPS) whether it accepts the bytes
func SpsDecodes(codec string, sps []byte) (ok bool) {
	defer func() {
		if r := recover(); r != nil {
			ok = false
		}
	}()
	if codec == "h265" {
		var s hevc.H265RawSPS
		return s.Decode(sps) == nil
	}
	var s h264.RawSPS
	return s.Decode(sps) == nil
}

// SpsTable caches verdicts of the real SPS decoders
type SpsTable struct {
	v map[string]bool
}

func NewSpsTable() *SpsTable { return &SpsTable{v: map[string]bool{}} }
func (t *SpsTable) Known(codec string, b []byte) bool {
	_, ok := t.v[codec+string(b)]
	return ok
}
func (t *SpsTable) Add(codec string, b []byte) { t.v[codec+string(b)] = SpsDecodes(codec, b) }
func (t *SpsTable) Ok(codec string, b []byte) bool {
	if !t.Known(codec, b) {
		t.Add(codec, b)
	}
	return t.v[codec+string(b)]
}

// Split returns the candidates of a case as ok / ko lists
func (t *SpsTable) Split(codec string, cands [][]byte) (ok, ko [][]byte) {
	for _, c := range cands {
		if t.Ok(codec, c) {
			ok = append(ok, c)
		} else {
			ko = append(ko, c)
		}
	}
	return
}

// ---- unit generators ----

type Gen struct {
	R      *Rng
	Count  func(string)
	Small  bool // bodies of at most ~120 bytes (malformed-stream cases: many variants per stream)
	serial uint32
}

func (g *Gen) size() (int, string) {
	if g.Small {
		switch x := g.R.Intn(100); {
		case x < 15:
			return g.R.Intn(3), "body0-2"
		case x < 70:
			return 3 + g.R.Intn(20), "body3-22"
		default:
			return 23 + g.R.Intn(100), "body23-122"
		}
	}
	switch x := g.R.Intn(100); {
	case x < 14:
		return g.R.Intn(3), "body0-2"
	case x < 50:
		return 3 + g.R.Intn(38), "body3-40"
	case x < 80:
		return 41 + g.R.Intn(1460), "body41-1500"
	case x < 95:
		return 1501 + g.R.Intn(8000), "body1.5k-9.5k"
	default:
		return 9501 + g.R.Intn(62000), "body9.5k-71k"
	}
}

// body: distinct (a serial number in front when it fits), otherwise pseudo-random
func (g *Gen) body(n int) []byte {
	b := g.R.Bytes(n)
	g.serial++
	if n >= 4 {
		binary.BigEndian.PutUint32(b, g.serial)
	} else if n >= 1 {
		b[0] = byte(g.serial)
	}
	return b
}

var h264Types = []byte{1, 1, 1, 1, 5, 5, 6, 7, 8, 9, 10, 11, 2, 3, 4, 13, 14, 15, 19, 20, 23, 16}

// Nal264 returns a NAL unit (NRI random, type 1..23 without filler unless filler=true; the F bit
// — forbidden_zero_bit, set by a sender or middlebox to flag a damaged unit, RFC 6184 5.3 — in 4 %)
func (g *Gen) Nal264(filler bool) ([]byte, string) {
	t := h264Types[g.R.Intn(len(h264Types))]
	if filler {
		t = 12
	}
	n, cls := g.size()
	hdr := byte(g.R.Intn(4))<<5 | t
	if g.R.Chance(4) {
		hdr |= 0x80
		g.Count("unit-f-bit-set")
	}
	return append([]byte{hdr}, g.body(n)...), cls
}

var h265Types = []byte{0, 1, 1, 1, 19, 20, 21, 16, 32, 33, 34, 35, 36, 37, 39, 40, 9, 8, 47, 22, 41}

// Nal265 returns a NAL unit with a 2-byte header (F in 3 %, LayerId, TID≥1)
func (g *Gen) Nal265() ([]byte, string) {
	t := h265Types[g.R.Intn(len(h265Types))]
	n, cls := g.size()
	layer := byte(0)
	if g.R.Chance(15) {
		layer = byte(g.R.Intn(64))
	}
	h0 := t<<1 | layer>>5
	if g.R.Chance(3) {
		h0 |= 0x80
		g.Count("unit-f-bit-set")
	}
	h1 := layer<<3 | byte(1+g.R.Intn(7))
	return append([]byte{h0, h1}, g.body(n)...), cls
}

// cuts for a unit with dataLen bytes after its header: sizes of all fragments but the last
func (g *Gen) cuts(dataLen int) []int {
	if dataLen < 2 {
		return nil
	}
	var cs []int
	left := dataLen
	mtu := 0
	switch g.R.Intn(4) {
	case 0:
		mtu = 1 + g.R.Intn(4)
	case 1:
		mtu = 1400
	case 2:
		mtu = 1 + g.R.Intn(dataLen)
	}
	for left > 1 && len(cs) < 60 {
		c := mtu
		if c == 0 {
			c = 1 + g.R.Intn(left-1)
		}
		if c >= left {
			c = left - 1
		}
		if c < 1 {
			break
		}
		cs = append(cs, c)
		left -= c
		if mtu == 0 && g.R.Chance(35) {
			break
		}
	}
	return cs
}

// VideoElems generates nAU access units of well-formed packetisation decisions
func (g *Gen) VideoElems(codec string, nAU int, ts uint32, tsStep uint32, allowFiller bool) []Elem {
	hdrLen := 1
	if codec == "h265" {
		hdrLen = 2
	}
	var out []Elem
	for a := 0; a < nAU; a++ {
		k := 1 + g.R.Intn(4)
		var nals [][]byte
		for i := 0; i < k; i++ {
			var n []byte
			var cls string
			if codec == "h265" {
				n, cls = g.Nal265()
			} else {
				n, cls = g.Nal264(allowFiller && g.R.Chance(4))
			}
			g.Count("unit-" + cls)
			nals = append(nals, n)
		}
		for i := 0; i < len(nals); {
			last := func(j int) bool { return j == len(nals)-1 }
			n := nals[i]
			mode := g.R.Intn(100)
			switch {
			case mode < 35 && len(n) <= 65000:
				out = append(out, Elem{Kind: 'S', TS: ts, M: last(i), Nals: [][]byte{n}})
				g.Count("item-single")
				i++
			case mode < 65:
				// aggregate this and the following units of the AU while they fit
				j, tot := i, hdrLen
				for j < len(nals) && len(nals[j]) < 65536 && tot+2+len(nals[j]) <= 65000 && (j == i || g.R.Chance(70)) {
					tot += 2 + len(nals[j])
					j++
				}
				if j == i {
					goto frag
				}
				out = append(out, Elem{Kind: 'A', TS: ts, M: last(j - 1), Nals: nals[i:j]})
				g.Count("item-agg")
				if j-i > 1 {
					g.Count("item-agg-multi")
				}
				i = j
			default:
				goto frag
			}
			continue
		frag:
			cs := g.cuts(len(n) - hdrLen)
			if len(cs) == 0 {
				if len(n) > 65000 {
					cs = []int{(len(n) - hdrLen) / 2}
				} else {
					out = append(out, Elem{Kind: 'S', TS: ts, M: last(i), Nals: [][]byte{n}})
					g.Count("item-single")
					i++
					continue
				}
			}
			// every fragment must fit an interleaved frame
			ok := true
			rest := len(n) - hdrLen
			for _, c := range cs {
				rest -= c
				if c > 65000 {
					ok = false
				}
			}
			if rest > 65000 || !ok {
				cs = nil
				for left := len(n) - hdrLen; left > 60000; left -= 60000 {
					cs = append(cs, 60000)
				}
			}
			out = append(out, Elem{Kind: 'F', TS: ts, M: last(i), Nals: [][]byte{n}, Cuts: cs})
			g.Count("item-frag")
			switch f := len(cs) + 1; {
			case f == 2:
				g.Count("frag-2")
			case f <= 5:
				g.Count("frag-3-5")
			default:
				g.Count("frag-6+")
			}
			i++
		}
		ts += tsStep
	}
	return out
}

// AacElem generates one AAC packet with 1..4 AUs
func (g *Gen) AacElem(ts uint32) Elem {
	k := 1
	if g.R.Chance(45) {
		k = 2 + g.R.Intn(3)
	}
	var aus [][]byte
	for i := 0; i < k; i++ {
		n := 0
		switch x := g.R.Intn(100); {
		case x < 5:
			n = 0
		case x < 70:
			n = 1 + g.R.Intn(400)
		case x < 95:
			n = 401 + g.R.Intn(1600)
		default:
			n = 8191 - g.R.Intn(3)
		}
		aus = append(aus, g.body(n))
	}
	g.Count("aac-packet")
	if k > 1 {
		g.Count("aac-multi-au")
	}
	return Elem{Kind: 'U', TS: ts, M: true, Nals: aus}
}

// SenderReport builds an RTCP SR (28 bytes) carrying the RTP timestamp
func SenderReport(rtpTS uint32) []byte {
	b := make([]byte, 28)
	b[0], b[1] = 0x80, 200
	binary.BigEndian.PutUint16(b[2:], 6)
	binary.BigEndian.PutUint32(b[4:], 0x1234ABCD)
	binary.BigEndian.PutUint32(b[8:], 0xE0000000)
	binary.BigEndian.PutUint32(b[12:], 0x80000000)
	binary.BigEndian.PutUint32(b[16:], rtpTS)
	return b
}
