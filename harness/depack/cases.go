package depack

import (
	"strings"

	. "verifharness/hlib"
)

// NPkts is the number of packets the element becomes
func (e Elem) NPkts() int {
	if e.Kind == 'F' {
		return len(e.Cuts) + 1
	}
	return 1
}

// CaseFromLine rebuilds the run-time parameters of a case from a corpus / replay line
// ("run key=value …"); the stream itself stays the opaque s= token.
func CaseFromLine(line string) *Case {
	m := KV(line)
	c := &Case{Codec: m["codec"], Rate: 90000, ARate: 44100}
	if c.Codec == "" {
		c.Codec = "h264"
	}
	if v, ok := m["rate"]; ok {
		c.Rate = int(atoi(v))
	}
	if v, ok := m["arate"]; ok {
		c.ARate = int(atoi(v))
	}
	c.Aac = m["aac"] == "1"
	if v, ok := m["seq0"]; ok {
		c.Seq0 = uint16(atoi(v))
	}
	if v, ok := m["aseq0"]; ok {
		c.ASeq0 = uint16(atoi(v))
	}
	c.Ready = m["ready"] == "1"
	c.WK = m["wk"] == "1"
	get := func(k string) []byte {
		if v, ok := m[k]; ok {
			return Unhx(v)
		}
		return nil
	}
	c.Sps, c.Pps, c.Vps = get("sps"), get("pps"), get("vps")
	c.Mode = m["mode"]
	c.Strict = m["strict"] == "1"
	if v, ok := m["skip"]; ok {
		c.Skip = int(atoi(v))
	}
	c.Sync = m["sync"] != "0"
	if !c.Aac {
		c.Sync = true
	}
	if v, ok := m["hdr"]; ok {
		c.Hdr = int(atoi(v))
	}
	c.RawS = m["s"]
	c.Elems = ElemsOfRaw(c.RawS)
	if o, ok := m["order"]; ok && o != "*" {
		c.Order = []int{}
		if o != "-" {
			for _, x := range strings.Split(o, "+") {
				c.Order = append(c.Order, int(atoi(x)))
			}
		}
	}
	if v, ok := m["sub"]; ok && v != "-" && v != "" {
		for _, x := range strings.Split(v, "+") {
			f := strings.SplitN(x, ":", 2)
			if len(f) == 2 {
				c.Subs = append(c.Subs, Sub{Pos: int(atoi(f[0])), Data: Unhx(f[1])})
			}
		}
	}
	c.Tags = append(c.Tags, "corpus")
	return c
}

// ElemsOfRaw parses the s= token of a corpus / replay line back into elements (kind, timestamp,
// NAL units / payload): enough for the harness-side oracles that look at what the sender sent
func ElemsOfRaw(raw string) []Elem {
	var out []Elem
	if raw == "" || raw == "-" {
		return out
	}
	for _, t := range strings.Split(raw, ",") {
		f := strings.Split(t, ".")
		if len(f) < 2 || len(f[0]) != 1 {
			continue
		}
		e := Elem{Kind: f[0][0]}
		nals := func(x string) [][]byte {
			var l [][]byte
			for _, h := range strings.Split(x, "+") {
				l = append(l, Unhx(h))
			}
			return l
		}
		switch e.Kind {
		case 'S', 'A', 'U', 'F':
			if len(f) >= 4 {
				e.TS = uint32(atoi(f[1]))
				e.M = f[2] == "1"
				e.Nals = nals(f[3])
			}
			if e.Kind == 'F' && len(f) >= 5 && f[4] != "-" {
				for _, c := range strings.Split(f[4], "+") {
					e.Cuts = append(e.Cuts, int(atoi(c)))
				}
			}
		case 'R', 'Q':
			if len(f) >= 4 {
				e.TS = uint32(atoi(f[1]))
				e.M = f[2] == "1"
				e.Data = Unhx(f[3])
			}
		case 'C', 'X':
			e.Data = Unhx(f[1])
		}
		out = append(out, e)
	}
	return out
}

// HasTag reports whether the case carries the tag
func (c *Case) HasTag(t string) bool {
	for _, x := range c.Tags {
		if x == t {
			return true
		}
	}
	return false
}
