package depack

import (
	"fmt"
	"os"
	"runtime"
	"strconv"
	"strings"
	"sync"
	"sync/atomic"
	"time"

	"github.com/cnotch/ipchub/av/codec"
	"github.com/cnotch/ipchub/av/codec/aac"
	"github.com/cnotch/ipchub/av/format/flv"
	"github.com/cnotch/ipchub/av/format/mpegts"
	"github.com/cnotch/ipchub/av/format/rtp"
	"github.com/cnotch/ipchub/utils/verifhook"
)

// ---- schedule points: the three converter loops announce every Pop (build tag verif) ----
//
// The hook carries no instance id, so a call is attributed to the run in whose generation its
// goroutine was first seen.  Two things keep that attribution exact: (a) a run ends with a barrier
// that waits until its worker goroutines have left (quiesce), (b) a run in which more than one
// goroutine showed up at the same point is contaminated by a straggler and is repeated.

var (
	hookOnce                sync.Once
	cntDemux, cntFlv, cntTs int64
	hookMu                  sync.Mutex
	hookGen                 int64               // generation = one harness run of a pipeline / demuxer
	hookGoroutine           = map[int64]int64{} // goroutine id → generation in which it was first seen
	genSeen                 = map[string]int{}  // point → number of distinct goroutines first seen in this generation
	genContaminated         bool
)

// HangBudget is how long the harness waits for an event of the implementation (a converter
// goroutine reaching its next schedule point, a synchronous call returning) before it calls the
// state a hang.  It costs nothing when the event arrives; it is deliberately far beyond anything a
// loaded machine can delay a runnable goroutine.  A hang is reported once, then Stopped is set and
// the runners stop generating: the hung goroutine cannot be killed.
var HangBudget = hangBudget()

// VERIF_HANG_BUDGET_S shortens the budget for the harness's own self-tests (mutants that hang)
func hangBudget() time.Duration {
	if v, err := strconv.Atoi(os.Getenv("VERIF_HANG_BUDGET_S")); err == nil && v > 0 {
		return time.Duration(v) * time.Second
	}
	return 300 * time.Second
}

// Stopped is set after a confirmed hang
var Stopped bool

func goid() int64 {
	var buf [64]byte
	n := runtime.Stack(buf[:], false)
	// "goroutine 123 [running]:"
	f := strings.Fields(string(buf[:n]))
	if len(f) >= 2 {
		id, _ := strconv.ParseInt(f[1], 10, 64)
		return id
	}
	return -1
}

// newGeneration starts a run: worker goroutines of earlier runs (they may still pass a schedule
// point while they wind down after Close) no longer count.
func newGeneration() {
	hookMu.Lock()
	hookGen++
	atomic.StoreInt64(&cntDemux, 0)
	atomic.StoreInt64(&cntFlv, 0)
	atomic.StoreInt64(&cntTs, 0)
	genSeen = map[string]int{}
	genContaminated = false
	hookMu.Unlock()
}

func contaminated() bool {
	hookMu.Lock()
	defer hookMu.Unlock()
	return genContaminated
}

func installHooks() {
	hookOnce.Do(func() {
		verifhook.Set(func(point string, id uint32) {
			var c *int64
			switch point {
			case "rtpdemuxer.beforePop":
				c = &cntDemux
			case "flvmuxer.beforePop":
				c = &cntFlv
			case "tsmuxer.beforePop":
				c = &cntTs
			default:
				return
			}
			g := goid()
			hookMu.Lock()
			gen, seen := hookGoroutine[g]
			if !seen {
				gen = hookGen
				hookGoroutine[g] = gen
				if len(hookGoroutine) > 100000 {
					hookGoroutine = map[int64]int64{g: gen}
				}
				genSeen[point]++
				if genSeen[point] > 1 {
					genContaminated = true
				}
			}
			cur := hookGen
			hookMu.Unlock()
			if gen == cur {
				atomic.AddInt64(c, 1)
			}
		})
	})
	newGeneration()
}

// quiesce waits (bounded, never a verdict) until the goroutines started since `base` was sampled
// have left, so that none of them is first seen by the hook in a later generation.
func quiesce(base int) {
	deadline := time.Now().Add(10 * time.Second)
	for i := 0; runtime.NumGoroutine() > base; i++ {
		if time.Now().After(deadline) {
			return
		}
		if i < 50 {
			runtime.Gosched()
		} else if i < 400 {
			time.Sleep(20 * time.Microsecond)
		} else {
			time.Sleep(time.Millisecond)
		}
	}
}

// waitFor waits until the counter reached want or the worker logged its panic.
// ok=false, dead=false only after HangBudget without either (hung).
func waitFor(cnt *int64, want int64, lg *LogCapture) (ok, dead bool) {
	deadline := time.Now().Add(HangBudget)
	for i := 0; ; i++ {
		if atomic.LoadInt64(cnt) >= want {
			return true, false
		}
		if lg.Panicked() != "" {
			return false, true
		}
		if time.Now().After(deadline) {
			// last look: the event may have arrived while this goroutine was not scheduled
			if atomic.LoadInt64(cnt) >= want {
				return true, false
			}
			if lg.Panicked() != "" {
				return false, true
			}
			Stopped = true
			return false, false
		}
		if i < 200 {
			time.Sleep(20 * time.Microsecond)
		} else {
			time.Sleep(time.Millisecond)
		}
	}
}

// Guard runs f (a blocking call into the implementation; f recovers its own panics) on its own
// goroutine and waits for it.  ok=false: f did not return within HangBudget — a hang, reported by
// the caller with the case as replay; the goroutine is abandoned and Stopped is set.
func Guard(f func()) (ok bool) {
	done := make(chan struct{})
	go func() {
		defer close(done)
		f()
	}()
	t := time.NewTimer(HangBudget)
	defer t.Stop()
	select {
	case <-done:
		return true
	case <-t.C:
		select {
		case <-done:
			return true
		default:
		}
		Stopped = true
		return false
	}
}

// SeqHdr is an AVC sequence header tag: its position among the tags and the parameter sets of its
// AVCDecoderConfigurationRecord (nil: the record could not be parsed)
type SeqHdr struct {
	At       int
	Sps, Pps []byte
}

type tagRec struct {
	mu    sync.Mutex
	tags  []string
	seq   []SeqHdr // the AVC sequence headers, in order
}

// WriteFlvTag canonicalises a tag: S script, V.<sps>.<pps> sequence header (H.264: decoded from the
// AVCDecoderConfigurationRecord; H.265: V), A AAC sequence header, v.<key>.<body>, a.<body>
func (r *tagRec) WriteFlvTag(t *flv.Tag) error {
	s := "?"
	var sh *SeqHdr
	switch t.TagType {
	case flv.TagTypeAmf0Data:
		s = "S"
	case flv.TagTypeVideo:
		if len(t.Data) >= 5 {
			codecID := t.Data[0] & 0x0f
			if t.Data[1] == flv.H2645PacketTypeSequenceHeader {
				s = "V"
				if codecID == flv.CodecIDAVC {
					var rec flv.AVCDecoderConfigurationRecord
					sh = &SeqHdr{}
					if err := rec.Unmarshal(t.Data[5:]); err == nil {
						s = "V." + Digest(rec.SPS) + "." + Digest(rec.PPS)
						sh.Sps, sh.Pps = append([]byte(nil), rec.SPS...), append([]byte(nil), rec.PPS...)
					} else {
						s = "V.undecodable"
					}
				}
			} else if len(t.Data) >= 9 {
				s = fmt.Sprintf("v.%s.%s", b01(t.Data[0]>>4 == flv.FrameTypeKeyFrame), Digest(t.Data[9:]))
			}
		}
	case flv.TagTypeAudio:
		if len(t.Data) >= 2 {
			if t.Data[1] == flv.AACPacketTypeSequenceHeader {
				s = "A"
			} else {
				s = "a." + Digest(t.Data[2:])
			}
		}
	}
	r.mu.Lock()
	if sh != nil {
		sh.At = len(r.tags)
		r.seq = append(r.seq, *sh)
	}
	r.tags = append(r.tags, s)
	r.mu.Unlock()
	return nil
}

func b01(b bool) string {
	if b {
		return "1"
	}
	return "0"
}

type tsRec struct {
	mu     sync.Mutex
	frames []string
}

func (r *tsRec) WriteMpegtsFrame(f *mpegts.Frame) error {
	s := ""
	if f.IsVideo() {
		s = fmt.Sprintf("v.%s.%s.%s", b01(f.IsKeyFrame()), hx(f.Header), Digest(f.Payload))
	} else {
		s = "a." + Digest(f.Payload)
	}
	r.mu.Lock()
	r.frames = append(r.frames, s)
	r.mu.Unlock()
	return nil
}

func hx(b []byte) string {
	if len(b) == 0 {
		return "-"
	}
	return fmt.Sprintf("%x", b)
}

// splitter mirrors media.Stream.WriteFrame: every frame goes to the FLV muxer and the TS muxer
type splitter struct {
	rec    *Recorder
	fl     *flv.Muxer
	ts     *mpegts.Muxer
	pushed int64
}

func (s *splitter) WriteFrame(f *codec.Frame) error {
	s.rec.WriteFrame(f)
	atomic.AddInt64(&s.pushed, 1)
	if s.fl != nil {
		s.fl.WriteFrame(f)
	}
	if s.ts != nil {
		s.ts.WriteFrame(f)
	}
	return nil
}

type PipeOut struct {
	ImplOut
	Tags    []string
	Seq     []SeqHdr // the AVC sequence headers among Tags
	Tsf     []string
	FAlive  bool
	TAlive  bool
	HasTs   bool
	FPanic  string
	TPanic  string
	Stopped int    // index (in arrival order) after which stepping stopped because a worker hung
	HungAt  string // which worker
}

// AscOk mirrors mpegts aacPacketizer.prepareAsc: does the AudioSpecificConfig decode to a usable object type?
func AscOk(cfgBytes []byte) (ok bool) {
	defer func() {
		if r := recover(); r != nil {
			ok = false
		}
	}()
	var asc aac.AudioSpecificConfig
	if err := asc.Decode(cfgBytes); err != nil {
		return false
	}
	return asc.ObjectType != aac.AOT_NULL && asc.ObjectType != aac.AOT_ESCAPE
}

// RunPipeline pushes the packets one at a time through a real rtp.Demuxer whose frames go to a
// real flv.Muxer and (H.264 + AAC) a real mpegts.Muxer, stepping the three goroutines in lock
// step through their schedule points.  asc = the AAC config of the SDP (nil: none).
func RunPipeline(c *Case, pkts []WPkt, order []int, asc []byte) PipeOut {
	for try := 0; ; try++ {
		out, dirty := runPipelineOnce(c, pkts, order, asc)
		if !dirty || out.Hung {
			return out
		}
		if try >= 3 {
			out.Skipped = "contaminated:a goroutine of an earlier run passed a schedule point during this run"
			return out
		}
	}
}

func runPipelineOnce(c *Case, pkts []WPkt, order []int, asc []byte) (out PipeOut, dirty bool) {
	base := runtime.NumGoroutine()
	installHooks()
	out = PipeOut{FAlive: true, TAlive: true}
	out.Alive = true
	vm, am := c.metas()
	am.Sps = asc
	rec := NewRecorder()
	lgD, lgF, lgT := NewLogCapture(), NewLogCapture(), NewLogCapture()
	tags, tsf := &tagRec{}, &tsRec{}
	sp := &splitter{rec: rec}
	var closers []func() error
	defer func() {
		for _, cl := range closers {
			cl()
		}
		if !out.Hung {
			quiesce(base)
		}
		dirty = contaminated()
	}()
	var err error
	if sp.fl, err = flv.NewMuxer(vm, am, tags, lgF.Logger()); err != nil {
		out.Skipped = "newflvmuxer:" + err.Error()
		return
	}
	closers = append(closers, sp.fl.Close)
	if c.Codec == "h264" && c.Aac {
		if sp.ts, err = mpegts.NewMuxer(vm, am, tsf, lgT.Logger()); err == nil {
			out.HasTs = true
			closers = append(closers, sp.ts.Close)
		} else {
			sp.ts = nil
		}
	}
	dm, err := rtp.NewDemuxer(vm, am, sp, lgD.Logger())
	if err != nil {
		out.Skipped = "newdemuxer:" + err.Error()
		return
	}
	closers = append(closers, dm.Close)
	// every worker registers at its first schedule point before anything is pushed
	hang := func(k int, which string) {
		out.Hung, out.Stopped, out.HungAt = true, k, which
	}
	if ok, dead := waitFor(&cntFlv, 1, lgF); dead {
		out.FAlive, out.FPanic = false, lgF.Panicked()
	} else if !ok {
		out.FAlive = false
		hang(-1, "flv-muxer")
		return
	}
	if out.HasTs {
		if ok, dead := waitFor(&cntTs, 1, lgT); dead {
			out.TAlive, out.TPanic = false, lgT.Panicked()
		} else if !ok {
			out.TAlive = false
			hang(-1, "ts-muxer")
			return
		}
	}
	if ok, dead := waitFor(&cntDemux, 1, lgD); dead {
		out.Alive, out.Panic = false, lgD.Panicked()
	} else if !ok {
		out.Alive = false
		hang(-1, "demuxer")
		return
	}
	pushed := int64(0)
	for k, i := range order {
		if i < 0 || i >= len(pkts) {
			continue
		}
		p, why := MakePacket(pkts[i], c.Hdr)
		if p == nil {
			out.Skipped = why
			break
		}
		if !out.Alive { // the goroutine is gone: the packet would stay in the queue for ever
			dm.WriteRtpPacket(p)
			continue
		}
		dm.WriteRtpPacket(p)
		pushed++
		ok, dead := waitFor(&cntDemux, pushed+1, lgD)
		if dead {
			out.Alive, out.Panic = false, lgD.Panicked()
		} else if !ok {
			out.Alive = false
			hang(k, "demuxer")
			break
		}
		// let the muxers consume the frames of this packet
		n := atomic.LoadInt64(&sp.pushed)
		if out.FAlive {
			ok, dead := waitFor(&cntFlv, n+1, lgF)
			if dead {
				out.FAlive, out.FPanic = false, lgF.Panicked()
			} else if !ok {
				out.FAlive = false
				hang(k, "flv-muxer")
				break
			}
		}
		if out.HasTs && out.TAlive {
			ok, dead := waitFor(&cntTs, n+1, lgT)
			if dead {
				out.TAlive, out.TPanic = false, lgT.Panicked()
			} else if !ok {
				out.TAlive = false
				hang(k, "ts-muxer")
				break
			}
		}
	}
	out.Frames = toMFrames(rec.Snapshot(), c, nil, nil)
	tags.mu.Lock()
	out.Tags = append([]string(nil), tags.tags...)
	out.Seq = append([]SeqHdr(nil), tags.seq...)
	tags.mu.Unlock()
	tsf.mu.Lock()
	out.Tsf = append([]string(nil), tsf.frames...)
	tsf.mu.Unlock()
	out.Sps, out.Pps, out.Vps = vm.Sps, vm.Pps, vm.Vps
	return
}
