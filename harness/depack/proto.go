// Package depack is shared by the C06 and C07 correspondence binaries: stream cases, the line
// protocol of Drv/DepackProto.lean, and the runners that execute the REAL ipchub code
// (rtp.ReadPacket, the depacketizers, rtp.Demuxer) on the packets produced by the Lean packetiser.
package depack

import (
	"fmt"
	"strconv"
	"strings"

	. "verifharness/hlib"
)

// Elem is one element of a stream description (see Drv/DepackProto.lean)
type Elem struct {
	Kind byte // S A F R C U Q X
	TS   uint32
	M    bool
	Nals [][]byte // S: 1, A: n, F: 1, U: AUs
	Cuts []int    // F
	Data []byte   // R Q: payload; C X: rtcp
}

func hexPlus(l [][]byte) string {
	s := make([]string, len(l))
	for i, b := range l {
		s[i] = Hx(b)
	}
	return strings.Join(s, "+")
}

func (e Elem) Enc() string {
	switch e.Kind {
	case 'S':
		return fmt.Sprintf("S.%d.%s.%s", e.TS, B01(e.M), Hx(e.Nals[0]))
	case 'A':
		return fmt.Sprintf("A.%d.%s.%s", e.TS, B01(e.M), hexPlus(e.Nals))
	case 'F':
		cs := make([]string, len(e.Cuts))
		for i, c := range e.Cuts {
			cs[i] = strconv.Itoa(c)
		}
		c := strings.Join(cs, "+")
		if c == "" {
			c = "-"
		}
		return fmt.Sprintf("F.%d.%s.%s.%s", e.TS, B01(e.M), Hx(e.Nals[0]), c)
	case 'R':
		return fmt.Sprintf("R.%d.%s.%s", e.TS, B01(e.M), Hx(e.Data))
	case 'C':
		return "C." + Hx(e.Data)
	case 'U':
		return fmt.Sprintf("U.%d.%s.%s", e.TS, B01(e.M), hexPlus(e.Nals))
	case 'Q':
		return fmt.Sprintf("Q.%d.%s.%s", e.TS, B01(e.M), Hx(e.Data))
	case 'X':
		return "X." + Hx(e.Data)
	}
	return "?"
}

// Case is one stream case
type Case struct {
	Codec         string // h264 | h265
	Rate, ARate   int
	Aac           bool
	Seq0, ASeq0   uint16
	Ready, WK     bool
	Sps, Pps, Vps []byte
	Elems         []Elem
	Order         []int  // nil = every packet in order
	Subs          []Sub  // corruption in place: payload of the packet at Pos replaced
	Mode          string // exact | contain
	Strict        bool   // contain: additionally every frame must be a unit of the stream
	Skip          int    // the first Skip elements are a parameter-set prefix, not judged
	Sync          bool   // synchronous Depacketize calls instead of the Demuxer goroutine
	Hdr           int    // RTP header variant seed (CSRC / extension / padding)
	Tags          []string
	RawS          string // corpus cases: the s= token verbatim
}

// Sub replaces the payload of the packet at position Pos of the sender's packet list
type Sub struct {
	Pos  int
	Data []byte
}

func (c *Case) Line(op string, ok, ko [][]byte, extra string) string {
	var b strings.Builder
	fmt.Fprintf(&b, "%s codec=%s cfg=gen rate=%d arate=%d aac=%s seq0=%d aseq0=%d ready=%s wk=%s sps=%s pps=%s vps=%s",
		op, c.Codec, c.Rate, c.ARate, B01(c.Aac), c.Seq0, c.ASeq0, B01(c.Ready), B01(c.WK), Hx(c.Sps), Hx(c.Pps), Hx(c.Vps))
	if len(ok) > 0 {
		b.WriteString(" ok=" + hexPlus(ok))
	}
	if len(ko) > 0 {
		b.WriteString(" ko=" + hexPlus(ko))
	}
	if c.RawS != "" {
		b.WriteString(" s=" + c.RawS)
	} else {
		es := make([]string, len(c.Elems))
		for i, e := range c.Elems {
			es[i] = e.Enc()
		}
		b.WriteString(" s=" + strings.Join(es, ","))
	}
	fmt.Fprintf(&b, " sync=%s hdr=%d", B01(c.Sync), c.Hdr)
	if c.Order != nil {
		os := make([]string, len(c.Order))
		for i, o := range c.Order {
			os[i] = strconv.Itoa(o)
		}
		o := strings.Join(os, "+")
		if o == "" {
			o = "-"
		}
		b.WriteString(" order=" + o)
	}
	if len(c.Subs) > 0 {
		ss := make([]string, len(c.Subs))
		for i, x := range c.Subs {
			ss[i] = fmt.Sprintf("%d:%s", x.Pos, Hx(x.Data))
		}
		b.WriteString(" sub=" + strings.Join(ss, "+"))
	}
	if c.Mode != "" {
		b.WriteString(" mode=" + c.Mode)
	}
	if c.Strict {
		b.WriteString(" strict=1")
	}
	if c.Skip > 0 {
		fmt.Fprintf(&b, " skip=%d", c.Skip)
	}
	if extra != "" {
		b.WriteString(" " + extra)
	}
	return b.String()
}

// WPkt is a packet produced by the Lean packetiser
type WPkt struct {
	Ch      int
	Seq     uint16
	TS      uint32
	M       bool
	Payload []byte
}

// MFrame is a frame of the model (or, with Base unused, of the implementation)
type MFrame struct {
	Audio bool
	TS    uint32
	Base  uint32
	Pts   int64
	Dig   string
}

type ModelOut struct {
	Pkts   []WPkt
	Frames []MFrame
	Sts    string
	Alive  bool
	Ready  bool
	Sps    string
	Pps    string
	Vps    string
	NFrags int
	VBase  uint32
	ABase  uint32
	Unk    [][]byte
	Raw    string
}

func atoi(s string) int64 {
	v, err := strconv.ParseInt(s, 10, 64)
	if err != nil {
		Fatal("bad number %q in driver output", s)
	}
	return v
}

func ParseRun(out string) ModelOut {
	m := KV(out)
	r := ModelOut{Raw: out}
	if _, ok := m["pkts"]; !ok {
		Fatal("driver: %s", out)
	}
	if m["pkts"] != "-" {
		for _, p := range strings.Split(m["pkts"], ",") {
			f := strings.Split(p, ".")
			if len(f) != 5 {
				Fatal("bad packet %q", p)
			}
			r.Pkts = append(r.Pkts, WPkt{Ch: int(atoi(f[0])), Seq: uint16(atoi(f[1])), TS: uint32(atoi(f[2])), M: f[3] == "1", Payload: Unhx(f[4])})
		}
	}
	if m["frames"] != "-" {
		for _, p := range strings.Split(m["frames"], ",") {
			f := strings.Split(p, ".")
			if len(f) != 5 {
				Fatal("bad frame %q", p)
			}
			r.Frames = append(r.Frames, MFrame{Audio: f[0] == "1", TS: uint32(atoi(f[1])), Base: uint32(atoi(f[2])), Pts: atoi(f[3]), Dig: f[4]})
		}
	}
	r.Sts = m["sts"]
	if r.Sts == "-" {
		r.Sts = ""
	}
	r.Alive = m["alive"] == "1"
	r.Ready = m["ready"] == "1"
	r.Sps, r.Pps, r.Vps = m["sps"], m["pps"], m["vps"]
	r.NFrags = int(atoi(m["nfrags"]))
	r.VBase = uint32(atoi(m["vbase"]))
	r.ABase = uint32(atoi(m["abase"]))
	if u := m["unk"]; u != "" {
		for _, h := range strings.Split(u, "+") {
			r.Unk = append(r.Unk, Unhx(h))
		}
	}
	return r
}

// Digest mirrors DepackProto.digest: short payloads verbatim, long ones length + FNV-1a 64
func Digest(b []byte) string {
	if len(b) <= 40 {
		return Hx(b)
	}
	h := uint64(0xcbf29ce484222325)
	for _, x := range b {
		h = (h ^ uint64(x)) * 0x100000001b3
	}
	return fmt.Sprintf("#%d:%016x", len(b), h)
}

func ObsString(fs []MFrame) string {
	if len(fs) == 0 {
		return "-"
	}
	s := make([]string, len(fs))
	for i, f := range fs {
		s[i] = fmt.Sprintf("%s.%d.%d.%s", B01(f.Audio), f.TS, f.Pts, f.Dig)
	}
	return strings.Join(s, ",")
}
