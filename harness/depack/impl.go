package depack

import (
	"bufio"
	"bytes"
	"encoding/binary"
	"fmt"
	"math"
	"runtime"
	"strings"
	"sync"

	"github.com/cnotch/ipchub/av/codec"
	"github.com/cnotch/ipchub/av/format/rtp"
	"github.com/cnotch/xlog"
)

// ---- recording FrameWriter ----

type Recorder struct {
	mu     sync.Mutex
	frames []*codec.Frame
	notify chan struct{}
}

func NewRecorder() *Recorder { return &Recorder{notify: make(chan struct{}, 1)} }

// MaxFrames bounds what one run may hand on: a depacketizer loop that never advances would
// otherwise fill the memory long before the hang watchdog fires.  No generated stream has more
// than a few hundred units.
const MaxFrames = 200000

func (r *Recorder) WriteFrame(f *codec.Frame) error {
	cp := &codec.Frame{MediaType: f.MediaType, Dts: f.Dts, Pts: f.Pts, Payload: append([]byte(nil), f.Payload...)}
	r.mu.Lock()
	if len(r.frames) >= MaxFrames {
		r.mu.Unlock()
		panic(fmt.Sprintf("verif: more than %d frames handed on in one run (a loop that does not advance?)", MaxFrames))
	}
	r.frames = append(r.frames, cp)
	r.mu.Unlock()
	select {
	case r.notify <- struct{}{}:
	default:
	}
	return nil
}

func (r *Recorder) Len() int {
	r.mu.Lock()
	defer r.mu.Unlock()
	return len(r.frames)
}

func (r *Recorder) Snapshot() []*codec.Frame {
	r.mu.Lock()
	defer r.mu.Unlock()
	return append([]*codec.Frame(nil), r.frames...)
}

// ---- capturing logger: a panic of a converter goroutine is reported through logger.Errorf ----

type LogCapture struct {
	mu     sync.Mutex
	errors []string
	notify chan struct{}
}

func NewLogCapture() *LogCapture { return &LogCapture{notify: make(chan struct{}, 1)} }

func (l *LogCapture) Enabled(lvl xlog.Level) bool { return lvl >= xlog.WarnLevel }
func (l *LogCapture) Sync() error                 { return nil }
func (l *LogCapture) Write(e xlog.Entry) error {
	if e.Level >= xlog.ErrorLevel {
		l.mu.Lock()
		l.errors = append(l.errors, e.Message)
		l.mu.Unlock()
		select {
		case l.notify <- struct{}{}:
		default:
		}
	}
	return nil
}

// Panicked returns the first logged message that reports a goroutine panic
func (l *LogCapture) Panicked() string {
	l.mu.Lock()
	defer l.mu.Unlock()
	for _, m := range l.errors {
		if strings.Contains(m, "panic") {
			if i := strings.IndexByte(m, '\n'); i > 0 {
				m = m[:i]
			}
			return m
		}
	}
	return ""
}

func (l *LogCapture) Logger() *xlog.Logger { return xlog.New(l) }

// ---- building real rtp.Packet values through the real ReadPacket ----

// RtpBytes wraps a payload into an RTP packet.  variant selects header shapes that are all
// legal RTP: 0 plain 12-byte header; 1 CSRC list; 2 header extension (RFC 3550 generic);
// 3 padding; 4 CSRC+extension+padding; 5 RFC 8285 one-byte-header extension; 6 RFC 8285
// two-byte-header extension + padding.
// A packet WITHOUT payload (RFC 3550 5.1 allows it; senders use it for pacing, probing and
// keep-alive) is, two times out of three (by sequence number), a padding-only packet in every
// variant: P bit set and the whole area after the header is padding.
func RtpBytes(w WPkt, variant int, ssrc uint32) []byte {
	var cc, x, p int
	switch variant {
	case 1:
		cc = 1 + int(w.Seq%3)
	case 2:
		x = 1
	case 3:
		p = 1
	case 4:
		cc, x, p = 2, 1, 1
	case 5:
		x = 2
	case 6:
		x, p = 3, 1
	}
	padLen := 1 + int(w.Seq%4)
	if w.Seq%16 == 5 {
		padLen = []int{8, 32, 255, 12}[int(w.Seq>>4)%4]
	}
	if len(w.Payload) == 0 && w.Seq%3 != 0 {
		p = 1
		padLen = []int{1, 2, 3, 4, 8, 5, 255, 16}[int(w.Seq/3)%8]
	}
	b := make([]byte, 12, 12+len(w.Payload)+320)
	xb := 0
	if x != 0 {
		xb = 1
	}
	b[0] = 2<<6 | byte(p)<<5 | byte(xb)<<4 | byte(cc)
	b[1] = 96
	if w.M {
		b[1] |= 0x80
	}
	binary.BigEndian.PutUint16(b[2:], w.Seq)
	binary.BigEndian.PutUint32(b[4:], w.TS)
	binary.BigEndian.PutUint32(b[8:], ssrc)
	for i := 0; i < cc; i++ {
		b = append(b, 0xC0, 0xFF, byte(i), 0xEE)
	}
	switch x {
	case 1:
		words := 1 + int(w.Seq%2)
		b = append(b, 0x12, 0x34, 0, byte(words))
		for i := 0; i < words*4; i++ {
			b = append(b, byte(0xA0+i))
		}
	case 2: // one-byte headers: id 1 (2 bytes), id 3 (1 byte), 2 bytes of padding
		b = append(b, 0xBE, 0xDE, 0, 2, 0x11, 0xAA, 0xBB, 0x30, 0xCC, 0, 0, 0)
		if w.Seq%2 == 1 { // id 2 and id 3 with 3 bytes each: the last element ends exactly at the end of the extension
			b = append(b[:len(b)-8], 0x22, 0xAA, 0xBB, 0xCC, 0x32, 0xDD, 0xEE, 0xFF)
		}
	case 3: // two-byte headers: id 1 len 1, id 7 len 0, padding
		b = append(b, 0x10, 0x00, 0, 2, 0x01, 0x01, 0xAA, 0x07, 0x00, 0, 0, 0)
	}
	b = append(b, w.Payload...)
	if p == 1 {
		for i := 0; i < padLen-1; i++ {
			b = append(b, 0)
		}
		b = append(b, byte(padLen))
	}
	return b
}

// Interleaved frames data on an RTSP interleaved channel: '$' ch len16 data
func Interleaved(ch byte, data []byte) []byte {
	b := make([]byte, 4, 4+len(data))
	b[0] = '$'
	b[1] = ch
	binary.BigEndian.PutUint16(b[2:], uint16(len(data)))
	return append(b, data...)
}

// ReadReal parses the bytes with the real rtp.ReadPacket (default channel configuration)
func ReadReal(wire []byte) (p *rtp.Packet, err error, panicked string) {
	defer func() {
		if r := recover(); r != nil {
			panicked = fmt.Sprint(r)
		}
	}()
	p, err = rtp.ReadPacket(bufio.NewReader(bytes.NewReader(wire)), rtp.DefaultChannelConfig)
	return
}

// MakePacket builds the real packet for w.  ok=false: it cannot be framed (too long) or the
// real parser rejected it (reported in why).
func MakePacket(w WPkt, variant int) (p *rtp.Packet, why string) {
	var data []byte
	if w.Ch == rtp.ChannelVideo || w.Ch == rtp.ChannelAudio {
		data = RtpBytes(w, variant, 0x1234ABCD)
	} else {
		data = w.Payload
	}
	if len(data) > 65535 {
		return nil, "too-long"
	}
	p, err, pan := ReadReal(Interleaved(byte(w.Ch), data))
	if pan != "" {
		return nil, "readpacket-panic:" + pan
	}
	if err != nil {
		return nil, "readpacket-error:" + err.Error()
	}
	return p, ""
}

// ---- running the implementation ----

type ImplOut struct {
	Frames  []MFrame // TS recovered from Pts (see RecoverTS)
	PerPkt  []int    // sync mode: number of frames emitted by each processed packet
	Sts     string   // sync mode: o / e / p per processed packet
	Alive   bool
	Ready   bool // unknown for the implementation: not filled
	Sps     []byte
	Pps     []byte
	Vps     []byte
	Panic   string
	Hung    bool
	Skipped string // a packet could not be built
	Padding string // Payload() differed from the payload that was wrapped
	HdrMis  string // header fields differ
}

// RecoverTS inverts pts = int64(float64(ts-base) * 1e9/rate) + 5e8 to the RTP timestamp
func RecoverTS(pts int64, rate int, base uint32) uint32 {
	ticks := math.Round(float64(pts-500000000) * float64(rate) / 1e9)
	return uint32(int64(ticks) + int64(base))
}

func (c *Case) metas() (*codec.VideoMeta, *codec.AudioMeta) {
	v := &codec.VideoMeta{Codec: "H264", ClockRate: c.Rate}
	if c.Codec == "h265" {
		v.Codec = "H265"
	}
	v.Sps = append([]byte(nil), c.Sps...)
	v.Pps = append([]byte(nil), c.Pps...)
	v.Vps = append([]byte(nil), c.Vps...)
	if c.WK {
		v.Width, v.Height = 640, 480
	}
	a := &codec.AudioMeta{}
	if c.Aac {
		a.Codec = "AAC"
		a.SampleRate = c.ARate
		a.Channels = 2
		a.SampleSize = 16
	}
	return v, a
}

func toMFrames(fs []*codec.Frame, c *Case, vbase, abase []uint32) []MFrame {
	out := make([]MFrame, len(fs))
	for i, f := range fs {
		audio := f.MediaType == codec.MediaTypeAudio
		rate := c.Rate
		var base uint32
		if audio {
			rate = c.ARate
			if i < len(abase) {
				base = abase[i]
			}
		} else if i < len(vbase) {
			base = vbase[i]
		}
		out[i] = MFrame{Audio: audio, Pts: f.Pts, Dig: Digest(f.Payload), TS: RecoverTS(f.Pts, rate, base), Base: base}
	}
	return out
}

func srBase(data []byte) (uint32, bool) {
	if len(data) >= 20 && data[1] == 200 {
		return binary.BigEndian.Uint32(data[16:]), true
	}
	return 0, false
}

// checkPacket compares what the real ReadPacket / Payload() produced with what was wrapped
func checkPacket(p *rtp.Packet, w WPkt, out *ImplOut) {
	if w.Ch != rtp.ChannelVideo && w.Ch != rtp.ChannelAudio {
		return
	}
	if p.SequenceNumber != w.Seq || p.Timestamp != w.TS || p.Marker != w.M {
		out.HdrMis = fmt.Sprintf("seq %d/%d ts %d/%d", p.SequenceNumber, w.Seq, p.Timestamp, w.TS)
	}
	var pl []byte
	func() {
		defer func() {
			if r := recover(); r != nil {
				out.Padding = "payload-panic:" + fmt.Sprint(r)
			}
		}()
		pl = p.Payload()
	}()
	if out.Padding == "" && !bytes.Equal(pl, w.Payload) {
		out.Padding = fmt.Sprintf("Payload() has %d bytes, the sender's payload %d", len(pl), len(w.Payload))
	}
}

// RunSync drives the exported depacketizers synchronously, packet by packet, dispatching on
// the channel exactly as Demuxer.process does; it stops at the first panic.  The calls run under
// a watchdog (Guard): a call that never returns gives Hung=true instead of a hung harness.
func RunSync(c *Case, pkts []WPkt, order []int) ImplOut {
	res := make(chan ImplOut, 1)
	if Guard(func() { res <- runSync(c, pkts, order) }) {
		return <-res
	}
	return ImplOut{Hung: true}
}

func runSync(c *Case, pkts []WPkt, order []int) ImplOut {
	out := ImplOut{Alive: true}
	vm, am := c.metas()
	rec := NewRecorder()
	var vdp, adp rtp.Depacketizer
	if c.Codec == "h265" {
		vdp = rtp.NewH265Depacketizer(vm, rec)
	} else {
		vdp = rtp.NewH264Depacketizer(vm, rec)
	}
	if c.Aac {
		adp = rtp.NewAacDepacketizer(am, rec)
	}
	var vb, ab uint32
	var vbases, abases []uint32
	var sts []byte
	for _, i := range order {
		if i < 0 || i >= len(pkts) {
			continue
		}
		w := pkts[i]
		p, why := MakePacket(w, c.Hdr)
		if p == nil {
			out.Skipped = why
			break
		}
		checkPacket(p, w, &out)
		before := rec.Len()
		st, pan := byte('o'), ""
		func() {
			defer func() {
				if r := recover(); r != nil {
					pan = fmt.Sprint(r)
				}
			}()
			var err error
			switch w.Ch {
			case rtp.ChannelVideo:
				err = vdp.Depacketize(p)
			case rtp.ChannelVideoControl:
				err = vdp.Control(p)
				if b, ok := srBase(w.Payload); ok && vb == 0 {
					vb = b
				}
			case rtp.ChannelAudio:
				if adp != nil {
					err = adp.Depacketize(p)
				}
			case rtp.ChannelAudioControl:
				if adp != nil {
					err = adp.Control(p)
					if b, ok := srBase(w.Payload); ok && ab == 0 {
						ab = b
					}
				}
			}
			if err != nil {
				st = 'e'
			}
		}()
		n := rec.Len() - before
		out.PerPkt = append(out.PerPkt, n)
		for k := 0; k < n; k++ {
			vbases = append(vbases, vb)
			abases = append(abases, ab)
		}
		if pan != "" {
			sts = append(sts, 'p')
			out.Panic = pan
			out.Alive = false
			break
		}
		sts = append(sts, st)
	}
	out.Sts = string(sts)
	out.Frames = toMFrames(rec.Snapshot(), c, vbases, abases)
	out.Sps, out.Pps, out.Vps = vm.Sps, vm.Pps, vm.Vps
	return out
}

// RunDemuxer pushes the packets through a real rtp.Demuxer (its own goroutine), one at a time,
// waiting at the goroutine's schedule point (verifhook "rtpdemuxer.beforePop") until each packet
// has been consumed; the death of the goroutine is recognised by the panic it logs.  Hung=true
// only after HangBudget with neither.
func RunDemuxer(c *Case, pkts []WPkt, order []int) ImplOut {
	for try := 0; ; try++ {
		out, dirty := runDemuxerOnce(c, pkts, order)
		if !dirty || out.Hung {
			return out
		}
		if try >= 3 {
			out.Skipped = "contaminated:a goroutine of an earlier run passed a schedule point during this run"
			return out
		}
	}
}

func runDemuxerOnce(c *Case, pkts []WPkt, order []int) (out ImplOut, dirty bool) {
	base := runtime.NumGoroutine()
	installHooks()
	out = ImplOut{Alive: true}
	vm, am := c.metas()
	rec := NewRecorder()
	lg := NewLogCapture()
	dm, err := rtp.NewDemuxer(vm, am, rec, lg.Logger())
	if err != nil {
		out.Skipped = "newdemuxer:" + err.Error()
		return
	}
	defer func() {
		dm.Close()
		if !out.Hung {
			quiesce(base)
		}
		dirty = contaminated()
	}()
	// the worker registers at its first schedule point before anything is pushed
	if ok, dead := waitFor(&cntDemux, 1, lg); dead {
		out.Alive, out.Panic = false, lg.Panicked()
	} else if !ok {
		out.Hung, out.Alive = true, false
		return
	}
	pushed := int64(0)
	for _, i := range order {
		if i < 0 || i >= len(pkts) {
			continue
		}
		p, why := MakePacket(pkts[i], c.Hdr)
		if p == nil {
			out.Skipped = why
			break
		}
		checkPacket(p, pkts[i], &out)
		dm.WriteRtpPacket(p)
		if !out.Alive {
			continue
		}
		pushed++
		ok, dead := waitFor(&cntDemux, pushed+1, lg)
		if dead {
			out.Alive, out.Panic = false, lg.Panicked()
		} else if !ok {
			out.Hung, out.Alive = true, false
			break
		}
	}
	out.Frames = toMFrames(rec.Snapshot(), c, nil, nil)
	out.Sps, out.Pps, out.Vps = vm.Sps, vm.Pps, vm.Vps
	return
}
