package medialib

import (
	"fmt"
	"strconv"
	"strings"
	"sync/atomic"

	"verifharness/hlib"
)

// field extracts " key=value" of consumer k from an observation line
func consFields(obs string) map[string]map[string]string {
	out := map[string]map[string]string{}
	parts := strings.Split(obs, " |")
	for _, p := range parts[1:] {
		f := strings.Fields(p)
		if len(f) == 0 {
			continue
		}
		out[f[0]] = hlib.KV(strings.Join(f[1:], " "))
	}
	return out
}

// classify a mismatch between implementation and model observation.
// delivery / release differences mean the property itself fails on the implementation
// (the model's delivered sequences and release counts are what the theorems prescribe);
// differences only in internal bookkeeping (queue length, discarding flag, counters) are a
// broken correspondence.
func classify(got, want string) (kind, class string) {
	if strings.HasPrefix(got, "blocked:") {
		return "oracle", "operation-blocked"
	}
	g, w := consFields(got), consFields(want)
	for k, wf := range w {
		gf := g[k]
		if gf == nil {
			return "corr", "observation-shape"
		}
		if gf["bad"] != "0" {
			return "oracle", "payload-not-identical"
		}
		if gf["d"] != wf["d"] {
			gd, wd := gf["d"], wf["d"]
			switch {
			case hasDup(gd):
				return "oracle", "delivered-twice"
			case strings.HasPrefix(wd, gd) || gd == "-":
				return "oracle", "delivery-missing"
			default:
				return "oracle", "delivery-differs"
			}
		}
		if gf["cl"] != wf["cl"] {
			return "oracle", "consumer-release"
		}
	}
	gh, wh := hlib.KV(strings.Split(got, " |")[0]), hlib.KV(strings.Split(want, " |")[0])
	if gh["cnt"] != wh["cnt"] || gh["cc"] != wh["cc"] || gh["n"] != wh["n"] {
		return "oracle", "consumer-count"
	}
	for k, wf := range w {
		if g[k]["reg"] != wf["reg"] {
			return "oracle", "registration"
		}
		if g[k]["dis"] != wf["dis"] || g[k]["q"] != wf["q"] {
			// the property bounds the backlog; it does not prescribe the drop flag or the exact queue
			// length: only a backlog larger than the model's (whose bound is the theorem) is a failure
			gq, _ := strconv.Atoi(g[k]["q"])
			wq, _ := strconv.Atoi(wf["q"])
			if gq > wq {
				return "oracle", "backlog-larger-than-prescribed"
			}
			return "corr", "backlog-or-drop-state"
		}
	}
	return "corr", "observation"
}

func hasDup(d string) bool {
	seen := map[string]bool{}
	for _, x := range strings.Split(d, ",") {
		if seen[x] {
			return true
		}
		seen[x] = true
	}
	return false
}

// RunScripts sends the scripts to the driver, runs them on the implementation and records findings.
func RunScripts(c *hlib.Ctx, tag string, scripts []Script) {
	lines := make([]string, len(scripts))
	for i, sc := range scripts {
		lines[i] = sc.Line(tag)
	}
	outs := c.Drive(lines)
	for i, sc := range scripts {
		if strings.HasPrefix(outs[i], "bad-op") {
			c.Find(hlib.Finding{Kind: "corr", Class: "driver-bad-op", Case: lines[i], Impl: "", Model: outs[i]})
			continue
		}
		exp := strings.Split(outs[i], " ## ")
		if atomic.LoadInt64(&confirmedFailures) >= maxFindingsPerRun {
			c.Count("script-not-run-after-findings")
			continue
		}
		bad, got, want := sc.RunImpl(exp)
		if bad >= 0 {
			// an observation that never matched within the budget: run the script once more on a fresh
			// stream; only a difference that shows again is reported (a starved goroutine is not a lost packet)
			c.Count("script-rerun")
			bad, got, want = sc.RunImpl(exp)
			if bad >= 0 {
				atomic.AddInt64(&confirmedFailures, 1)
			}
		}
		nj, np, ns := 0, 0, 0
		for _, o := range sc.Ops {
			switch o.Code {
			case 'P':
				np++
				if o.Raw != nil {
					c.Count(fmt.Sprintf("pub-raw-mode%d", o.Raw.Mode))
				} else {
					c.Count("pub-" + KindNames[o.Kind])
				}
			case 'J':
				nj++
				c.Count("join")
				if o.Panic > 0 {
					c.Count("join-panicking-consumer")
				}
			case 'S':
				ns++
				c.Count("stop")
			case 'X':
				c.Count("close")
			case 'T':
				c.Count("stall")
			case 'R':
				c.Count("resume")
			}
		}
		if sc.Hevc {
			c.Count("script-hevc")
		} else {
			c.Count("script-h264")
		}
		if sc.Gop {
			c.Count("script-cachegop")
		}
		if sc.MaxQ > 0 {
			c.Count("script-small-backlog-limit")
		}
		for _, e := range exp {
			if strings.Contains(e, "dis=1") {
				c.Count("script-reaches-discarding")
				break
			}
		}
		last := exp[len(exp)-1]
		if strings.Contains(last, "dis=1") {
			c.Count("script-ends-discarding")
		}
		c.Eval(lines[i], nj > 0 && np > 0)
		if i%(len(scripts)/6+1) == 0 {
			ops := []string{}
			for _, o := range sc.Ops {
				ops = append(ops, o.String())
			}
			if len(ops) > 40 {
				ops = append(ops[:40], "...")
			}
			c.Sample(fmt.Sprintf("hevc=%v gop=%v ops=%s final=%s", sc.Hevc, sc.Gop, strings.Join(ops, " "), trunc(last, 300)))
		}
		if bad >= 0 {
			kind, class := classify(got, want)
			c.Find(hlib.Finding{Kind: kind, Class: class, Case: lines[i], Impl: trunc(got, 600), Model: trunc(want, 600), Spec: trunc(want, 600),
				Detail: fmt.Sprintf("after op %d (%s)", bad, sc.Ops[bad])})
			if kind == "corr" {
				// model and implementation differ in something the property does not prescribe directly
				// (queue length, drop flag): let the script run to its end without the model and ask the
				// specification itself about what the consumers were delivered
				names, joinedAt, detachedAt, delivered := sc.RunFree()
				al := sc.AlignLine(tag, names, joinedAt, detachedAt, delivered)
				if out := c.Drive([]string{al}); len(out) == 1 && strings.HasPrefix(out[0], "bad:") {
					c.Find(hlib.Finding{Kind: "oracle", Class: "drop-not-aligned-to-key-frame-start", Case: lines[i], Impl: out[0],
						Spec:   "of the packets published while a consumer was attached, the first one of every dropped run and the first one delivered after it both start a key frame",
						Detail: "free run of the script judged by the Lean oracle dropAligned: " + trunc(al, 400)})
				}
				c.Count("script-free-run-judged-by-alignment-oracle")
			}
		}
	}
	c.CountN("script-demuxer-catch-up-lost", int(atomic.SwapInt64(&CatchUpLost, 0)))
}

func trunc(s string, n int) string {
	if len(s) > n {
		return s[:n] + "…"
	}
	return s
}

// ParseScriptLine rebuilds a Script from a corpus/replay line is not needed: replay lines are
// re-driven verbatim through ReplayLines.

// RecordOutcome turns a gated-scenario outcome into evaluation / finding
func RecordOutcome(c *hlib.Ctx, o Outcome, tag string) {
	key := tag + ":" + o.Name
	c.Eval(key, o.Skipped == "")
	c.Count("scenario-" + o.Name)
	if o.Skipped != "" {
		c.Count("scenario-skipped")
		c.Find(hlib.Finding{Kind: "corr", Class: "schedule-point-missing:" + o.Name, Case: "scenario " + o.Name, Impl: o.Skipped,
			Detail: "a verif schedule point of this scenario is no longer reached: the interleaving cannot be replayed"})
		return
	}
	if o.Fail != "" {
		c.Find(hlib.Finding{Kind: "oracle", Class: o.Name, Case: "scenario " + o.Name, Impl: o.Fail, Spec: "see DESIGN §5 C01–C04", Detail: o.Detail})
	}
}

// StressRuns: n concurrent runs (publisher ∥ joiners/stoppers, perturbed at every schedule point);
// per-run invariants are checked in Go, the delivered sequences are judged by the Lean trace oracle.
func StressRuns(c *hlib.Ctx, tag string, n int) {
	var traces []string
	for i := 0; i < n; i++ {
		o := ScStress(c.Seed*1000+uint64(i), i%2 == 1)
		o.Name = fmt.Sprintf("%s-%d", o.Name, i)
		RecordOutcome(c, o, tag+"-stress")
		if o.Trace != "" {
			traces = append(traces, tag+" "+o.Trace)
		}
	}
	for i, out := range c.Drive(traces) {
		c.Count("stress-traces-judged")
		c.CountN("stress-consumers-required-complete", strings.Count(traces[i], "!"))
		if strings.Contains(out, "bad") {
			c.Find(hlib.Finding{Kind: "oracle", Class: "concurrent-stress-trace", Case: traces[i], Impl: out,
				Spec:   "every delivered list is replay(cut k) ++ published[k..] for some cut k: all of it for a consumer that stayed attached, a prefix for one that was stopped",
				Detail: "a consumer's delivered sequence in a concurrent run is not replay ++ contiguous live part"})
		}
	}
}
