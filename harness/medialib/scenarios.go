package medialib

import (
	"fmt"
	"github.com/cnotch/ipchub/av/format/flv"
	"runtime"
	"strings"
	"sync"
	"sync/atomic"
	"time"

	"github.com/cnotch/ipchub/av/format/rtp"
	"github.com/cnotch/ipchub/utils/verifhook"

	"github.com/cnotch/ipchub/media"
)

// Outcome of a gated scenario: empty Fail = the property held
type Outcome struct {
	Name    string
	Fail    string // what failed (oracle), "" if fine
	Detail  string
	Skipped string // the schedule point was not reached (code restructured): not a verdict
	Trace   string // stress runs: the observed trace as a driver line for the Lean trace oracle
}

// waits for events that do happen on a correct tree: generous, they cost nothing when the event arrives
const gateWait = 60 * time.Second
const waitBudget = 60 * time.Second

// ScLostWakeup: the consumer goroutine is parked between its closed-check and its blocking
// Pop; the consumer is stopped (or the stream closed); the goroutine is released.
// Property (C03): the consumer is released (Consumer.Close called exactly once) promptly.
func ScLostWakeup(viaStreamClose bool, hevc bool) Outcome {
	name := "lost-wakeup-stop"
	if viaStreamClose {
		name = "lost-wakeup-close"
	}
	g := InstallGates()
	defer g.Uninstall()
	w := NewWorld(hevc, false)
	defer w.S.Close()
	r := w.NewRec()
	gt := g.Arm("consume.beforePop", 0)
	w.Join(r, true)
	if !gt.WaitReached(gateWait) {
		return Outcome{Name: name, Skipped: "consume.beforePop not reached"}
	}
	done := make(chan struct{})
	go func() {
		if viaStreamClose {
			w.S.Close()
		} else {
			w.S.StopConsume(r.CID)
		}
		close(done)
	}()
	select {
	case <-done:
	case <-time.After(gateWait):
		gt.Release()
		return Outcome{Name: name, Fail: "stop/close blocked while a consumer goroutine is between its closed-check and Pop"}
	}
	gt.Release()
	ok := Eventually(waitBudget, func() bool { return r.CloseCalls() >= 1 })
	time.Sleep(2 * time.Millisecond)
	if !ok {
		return Outcome{Name: name, Fail: "consumer never released: Consumer.Close not called after stop/close (goroutine parked in Pop)", Detail: w.Observe()}
	}
	if n := r.CloseCalls(); n != 1 {
		return Outcome{Name: name, Fail: fmt.Sprintf("Consumer.Close called %d times", n), Detail: w.Observe()}
	}
	if c := w.S.ConsumerCount(); c != 0 {
		return Outcome{Name: name, Fail: fmt.Sprintf("consumer count %d after release", c), Detail: w.Observe()}
	}
	return Outcome{Name: name}
}

// ScJoinRace: the joiner is parked after its cache snapshot and before registration while the
// publisher publishes; or the publisher is parked after caching and before broadcasting while
// the joiner joins.  Property (C01/C02): delivered = replay(prefix k) ++ published[k..], no gap, no repeat.
func ScJoinRace(parkPublisher bool, hevc bool) Outcome {
	name := "join-race-joiner-parked"
	if parkPublisher {
		name = "join-race-publisher-parked"
	}
	g := InstallGates()
	defer g.Uninstall()
	w := NewWorld(hevc, true)
	defer w.S.Close()
	// a GOP is in the cache
	w.Publish(KSps, 2)
	w.Publish(KPps, 2)
	w.Publish(KKey, 2)
	w.Publish(KNonKey, 2)
	r := w.NewRec()
	if !parkPublisher {
		gt := g.Arm("stream.join.snapshotted", 0)
		joined := make(chan struct{})
		go func() { w.Join(r, true); close(joined) }()
		reached := gt.WaitReached(gateWait)
		// publish while the joiner sits between snapshot and registration (with the fix the
		// joiner cannot be parked there while the publisher gets in: both are serialised)
		pubDone := make(chan struct{})
		go func() { w.Publish(KNonKey, 2); close(pubDone) }()
		select {
		case <-pubDone:
		case <-time.After(300 * time.Millisecond):
		}
		gt.Release()
		g.Disarm("stream.join.snapshotted")
		<-joined
		<-pubDone
		_ = reached
	} else {
		gt := g.Arm("stream.write.cached", 0)
		pubDone := make(chan struct{})
		go func() { w.Publish(KNonKey, 2); close(pubDone) }()
		gt.WaitReached(gateWait)
		joined := make(chan struct{})
		go func() { w.Join(r, true); close(joined) }()
		select {
		case <-joined:
		case <-time.After(300 * time.Millisecond):
		}
		gt.Release()
		g.Disarm("stream.write.cached")
		<-pubDone
		<-joined
	}
	w.Publish(KNonKey, 2)
	if !w.Quiesce() {
		return Outcome{Name: name, Fail: "no quiescence", Detail: w.Observe()}
	}
	d := r.Delivered()
	// expected: sps(1) pps(2) key(3) nonkey(4) then 5, 6 exactly once each, in order
	want := []uint32{1, 2, 3, 4, 5, 6}
	if fmt.Sprint(d) != fmt.Sprint(want) {
		return Outcome{Name: name, Fail: fmt.Sprintf("joiner received %v, expected %v (gap or repeat between cached part and live part)", d, want), Detail: w.Observe()}
	}
	return Outcome{Name: name}
}

// ScAttachDuringClose: a consumer attaches after the stream's close sweep.
// Property (C03): it is closed promptly and not left registered.
func ScAttachAfterClose(hevc bool) Outcome {
	name := "attach-after-close"
	w := NewWorld(hevc, true)
	w.Publish(KSps, 2)
	w.S.Close()
	r := w.NewRec()
	w.Join(r, true)
	ok := Eventually(waitBudget, func() bool { return r.CloseCalls() >= 1 })
	time.Sleep(2 * time.Millisecond)
	if !ok {
		return Outcome{Name: name, Fail: "consumer attached to a closed stream is never closed", Detail: w.Observe()}
	}
	if n := r.CloseCalls(); n != 1 {
		return Outcome{Name: name, Fail: fmt.Sprintf("Consumer.Close called %d times", n), Detail: w.Observe()}
	}
	if c := w.S.ConsumerCount(); c != 0 {
		return Outcome{Name: name, Fail: fmt.Sprintf("consumer count %d on a closed stream", c), Detail: w.Observe()}
	}
	return Outcome{Name: name}
}

// ScAttachAfterEnd: the stream ends for one of the reasons the property names — replaced by a new
// publisher on the same path (media.Regist), unregistered, or closed — and only then a consumer
// attaches through the handle it looked up before (the lookup → attach window of every service).
// Property (C03): it is closed promptly, exactly once, and does not stay in the table.
func ScAttachAfterEnd(reason string, flvTable bool, hevc bool) Outcome {
	name := "attach-after-" + reason
	if flvTable {
		name += "-flv"
	}
	w := NewWorld(hevc, true)
	path := w.S.Path()
	media.Regist(w.S)
	w.Publish(KSps, 2)
	var successor *media.Stream
	switch reason {
	case "replaced":
		sdp := SdpH264
		if hevc {
			sdp = SdpH265
		}
		successor = media.NewStream(path, sdp)
		media.Regist(successor) // the old stream has no consumer: closed at once, status "replaced"
	case "unregistered":
		media.Unregist(w.S)
	default:
		w.S.Close()
		media.Unregist(w.S)
	}
	defer func() {
		if successor != nil {
			media.Unregist(successor)
		}
	}()
	if !Eventually(30*time.Second, func() bool { return w.S.VerifStatus() != 0 }) {
		return Outcome{Name: name, Skipped: "the stream did not end"}
	}
	r := w.NewRec()
	if flvTable {
		r.Flv = true
		r.CID = w.S.StartConsume(r, media.FLVPacket, "verif")
	} else {
		w.Join(r, true)
	}
	ok := Eventually(30*time.Second, func() bool { return r.CloseCalls() >= 1 && w.S.ConsumerCount() == 0 })
	time.Sleep(2 * time.Millisecond)
	if !ok {
		return Outcome{Name: name, Fail: fmt.Sprintf("consumer attached to an ended stream (%s) is not released: Close calls %d, consumer count %d", reason, r.CloseCalls(), w.S.ConsumerCount()), Detail: w.Observe()}
	}
	if n := r.CloseCalls(); n != 1 {
		return Outcome{Name: name, Fail: fmt.Sprintf("Consumer.Close called %d times", n), Detail: w.Observe()}
	}
	return Outcome{Name: name}
}

// ScEndOfReplacedStream: publisher A's stream has consumers, publisher B registers on the same
// path (A is retired but keeps serving its consumers), then A's publisher leaves (media.Unregist
// of the retired stream) — or the server shuts down (UnregistAll).  Property (C03): every consumer
// of the stream that ended is closed exactly once, its count is zero; the successor is untouched.
func ScEndOfReplacedStream(how string, hevc bool) Outcome {
	name := "end-of-replaced-stream-" + how
	w := NewWorld(hevc, true)
	path := w.S.Path()
	media.Regist(w.S)
	w.Publish(KSps, 2)
	rtpC := w.NewRec()
	w.Join(rtpC, true)
	flvC := w.NewRec()
	flvC.Flv = true
	flvC.CID = w.S.StartConsume(flvC, media.FLVPacket, "verif")
	sdp := SdpH264
	if hevc {
		sdp = SdpH265
	}
	succ := media.NewStream(path, sdp)
	media.Regist(succ) // A has consumers: it is retired, not closed
	defer media.Unregist(succ)
	sc := &Rec{Name: 99, gate: make(chan struct{}, 1), world: w}
	sc.CID = succ.StartConsume(sc, media.RTPPacket, "verif")
	switch how {
	case "unregist":
		media.Unregist(w.S)
	default:
		w.S.Close()
	}
	ok := Eventually(waitBudget, func() bool {
		return rtpC.CloseCalls() >= 1 && flvC.CloseCalls() >= 1 && w.S.ConsumerCount() == 0
	})
	time.Sleep(2 * time.Millisecond)
	if !ok {
		return Outcome{Name: name, Fail: fmt.Sprintf("the consumers of a replaced stream are not released when that stream ends (%s): Close calls rtp %d flv %d, consumer count %d, status %d",
			how, rtpC.CloseCalls(), flvC.CloseCalls(), w.S.ConsumerCount(), w.S.VerifStatus()), Detail: w.Observe()}
	}
	if rtpC.CloseCalls() != 1 || flvC.CloseCalls() != 1 {
		return Outcome{Name: name, Fail: fmt.Sprintf("Consumer.Close called %d / %d times", rtpC.CloseCalls(), flvC.CloseCalls()), Detail: w.Observe()}
	}
	if sc.CloseCalls() != 0 || succ.ConsumerCount() != 1 || media.Get(path) != succ {
		return Outcome{Name: name, Fail: fmt.Sprintf("the successor was disturbed: its consumer's Close calls %d, its consumer count %d, registered %v", sc.CloseCalls(), succ.ConsumerCount(), media.Get(path) == succ), Detail: w.Observe()}
	}
	return Outcome{Name: name}
}

// ScAttachDuringCloseGate: the closer is parked right after publishing the closed status,
// a consumer attaches, the closer continues its sweep.
func ScAttachDuringClose(hevc bool) Outcome {
	name := "attach-during-close"
	g := InstallGates()
	defer g.Uninstall()
	w := NewWorld(hevc, true)
	w.Publish(KSps, 2)
	gt := g.Arm("stream.close.status", 0)
	closed := make(chan struct{})
	go func() { w.S.Close(); close(closed) }()
	if !gt.WaitReached(gateWait) {
		return Outcome{Name: name, Skipped: "stream.close.status not reached"}
	}
	r := w.NewRec()
	joined := make(chan struct{})
	go func() { w.Join(r, true); close(joined) }()
	select {
	case <-joined:
	case <-time.After(300 * time.Millisecond):
	}
	gt.Release()
	<-closed
	<-joined
	ok := Eventually(waitBudget, func() bool { return r.CloseCalls() >= 1 })
	time.Sleep(2 * time.Millisecond)
	if !ok {
		return Outcome{Name: name, Fail: "consumer attaching during close is never closed", Detail: w.Observe()}
	}
	if n := r.CloseCalls(); n != 1 {
		return Outcome{Name: name, Fail: fmt.Sprintf("Consumer.Close called %d times", n), Detail: w.Observe()}
	}
	if c := w.S.ConsumerCount(); c != 0 {
		return Outcome{Name: name, Fail: fmt.Sprintf("consumer count %d after close", c), Detail: w.Observe()}
	}
	return Outcome{Name: name}
}

// ScCloseAttachStress: attaches on both tables race the end of the stream, many times, without
// gates (the interleavings between the schedule points: e.g. an attach landing between the sweep
// of a table and the end of close).  Property (C03): whatever the interleaving, every consumer
// that attached or tried to is closed exactly once and the ended stream counts no consumer.
func ScCloseAttachStress(rounds int, hevc bool) Outcome {
	name := "close-vs-attach-stress"
	for round := 0; round < rounds; round++ {
		w := NewWorld(hevc, true)
		w.Publish(KSps, 2)
		w.Publish(KPps, 2)
		w.Publish(KKey, 2)
		const joiners = 6
		recs := make([]*Rec, joiners)
		for i := range recs {
			recs[i] = &Rec{Name: i, gate: make(chan struct{}, 1), world: w}
			recs[i].Flv = i%2 == 0
		}
		start := make(chan struct{})
		var wg sync.WaitGroup
		for i, r := range recs {
			wg.Add(1)
			go func(i int, r *Rec) {
				defer wg.Done()
				<-start
				for k := 0; k < i*(round%7); k++ {
					runtime.Gosched()
				}
				if r.Flv {
					r.CID = w.S.StartConsume(r, media.FLVPacket, "verif")
				} else {
					r.CID = w.S.StartConsume(r, media.RTPPacket, "verif")
				}
			}(i, r)
		}
		close(start)
		for k := 0; k < round%5; k++ {
			runtime.Gosched()
		}
		w.S.Close()
		wg.Wait()
		ok := Eventually(waitBudget, func() bool {
			if w.S.ConsumerCount() != 0 {
				return false
			}
			for _, r := range recs {
				if r.CloseCalls() < 1 {
					return false
				}
			}
			return true
		})
		if !ok {
			left := 0
			for _, r := range recs {
				if r.CloseCalls() < 1 {
					left++
				}
			}
			return Outcome{Name: name, Fail: fmt.Sprintf("round %d: after the stream ended %d of %d consumers that attached around the close are not released, consumer count %d", round, left, joiners, w.S.ConsumerCount()), Detail: w.Observe()}
		}
		time.Sleep(time.Millisecond)
		for _, r := range recs {
			if n := r.CloseCalls(); n != 1 {
				return Outcome{Name: name, Fail: fmt.Sprintf("round %d: Consumer.Close called %d times", round, n), Detail: w.Observe()}
			}
		}
	}
	return Outcome{Name: name}
}

// ScCounterRace: two removals of the same consumer overlap (one parked between its lookup and
// its delete).  Property (C03): the count is zero afterwards, never negative.
func ScCounterRace(withCloseAll bool, hevc bool) Outcome {
	name := "counter-race-two-stops"
	if withCloseAll {
		name = "counter-race-stop-vs-close"
	}
	g := InstallGates()
	defer g.Uninstall()
	w := NewWorld(hevc, false)
	defer w.S.Close()
	r := w.NewRec()
	w.Join(r, true)
	w.Quiesce()
	gt := g.Arm("consumptions.remove.loaded", 0)
	first := make(chan struct{})
	go func() { w.S.StopConsume(r.CID); close(first) }()
	reached := gt.WaitReached(gateWait)
	second := make(chan struct{})
	go func() {
		if withCloseAll {
			w.S.Close()
		} else {
			w.S.StopConsume(r.CID)
		}
		close(second)
	}()
	select {
	case <-second:
	case <-time.After(300 * time.Millisecond):
	}
	gt.Release()
	g.Disarm("consumptions.remove.loaded")
	<-first
	<-second
	_ = reached
	Eventually(waitBudget, func() bool { return r.CloseCalls() >= 1 })
	time.Sleep(2 * time.Millisecond)
	_, _, rc, _ := w.S.VerifTables()
	if rc != 0 {
		return Outcome{Name: name, Fail: fmt.Sprintf("consumer counter is %d after all consumers were removed", rc), Detail: w.Observe()}
	}
	if n := r.CloseCalls(); n != 1 {
		return Outcome{Name: name, Fail: fmt.Sprintf("Consumer.Close called %d times", n), Detail: w.Observe()}
	}
	return Outcome{Name: name}
}

var _ = media.RTPPacket

// goroutinesMatching counts live goroutines whose stack mentions substr
func goroutinesMatching(substr string) int {
	buf := make([]byte, 1<<22)
	n := runtime.Stack(buf, true)
	cnt := 0
	for _, g := range strings.Split(string(buf[:n]), "\n\n") {
		if strings.Contains(g, substr) {
			cnt++
		}
	}
	return cnt
}

// ScWorkerLostWakeup: a converter worker (rtp demuxer, flv muxer, ts muxer) is parked between its
// closed-check and its blocking Pop while the stream is closed.  Property (C03): no conversion
// goroutine of the stream remains.
func ScWorkerLostWakeup(point, fn string) Outcome {
	name := "worker-lost-wakeup:" + point
	before := goroutinesMatching(fn)
	g := InstallGates()
	defer g.Uninstall()
	gt := g.Arm(point, 0)
	w := NewWorld(false, false)
	if !gt.WaitReached(gateWait) {
		w.S.Close()
		return Outcome{Name: name, Skipped: point + " not reached"}
	}
	done := make(chan struct{})
	go func() { w.S.Close(); close(done) }()
	select {
	case <-done:
	case <-time.After(gateWait):
		gt.Release()
		return Outcome{Name: name, Fail: "Stream.Close blocked while a worker is between its closed-check and Pop"}
	}
	gt.Release()
	ok := Eventually(waitBudget, func() bool { return goroutinesMatching(fn) <= before })
	if !ok {
		return Outcome{Name: name, Fail: fmt.Sprintf("conversion goroutine %s still alive after Stream.Close (parked in Pop for ever)", fn)}
	}
	return Outcome{Name: name}
}

// ScStress runs real concurrent goroutines (publisher, joiners, stoppers, closer) with random
// yields at the schedule points and checks the per-consumer trace property directly:
// delivered = replay-prefix ++ contiguous run of published uids, no duplicates, exactly one
// Consumer.Close for every consumer once the stream is closed, counter zero.
func ScStress(seed uint64, hevc bool) Outcome {
	name := "concurrent-stress"
	rs := seed*2862933555777941757 + 3037000493
	var hmu sync.Mutex
	rnd := func() uint64 {
		hmu.Lock()
		defer hmu.Unlock()
		rs ^= rs << 13
		rs ^= rs >> 7
		rs ^= rs << 17
		return rs
	}
	verifhook.Set(func(point string, id uint32) {
		switch rnd() % 4 {
		case 0:
			runtime.Gosched()
		case 1:
			time.Sleep(time.Duration(rnd()%50) * time.Microsecond)
		}
	})
	defer verifhook.Set(nil)
	w := NewWorld(hevc, true)
	var wg sync.WaitGroup
	nPub := 300
	pubDone := make(chan struct{})
	wg.Add(1)
	go func() {
		defer wg.Done()
		for i := 0; i < nPub; i++ {
			k := KNonKey
			switch {
			case i%25 == 0:
				k = KSps
			case i%25 == 1:
				k = KPps
			case i%25 == 2:
				k = KKey
			case i%7 == 0:
				k = KAudio
			}
			w.Publish(k, int(rnd()%4))
			if rnd()%3 == 0 {
				runtime.Gosched()
			}
		}
		close(pubDone)
	}()
	var rmu sync.Mutex
	var recs []*Rec
	for j := 0; j < 6; j++ {
		wg.Add(1)
		go func(j int) {
			defer wg.Done()
			for i := 0; i < 5; i++ {
				time.Sleep(time.Duration(rnd()%300) * time.Microsecond)
				rmu.Lock()
				r := &Rec{Name: len(recs), gate: make(chan struct{}, 1), world: w}
				recs = append(recs, r)
				rmu.Unlock()
				w.Join(r, true)
				if rnd()%2 == 0 {
					time.Sleep(time.Duration(rnd()%300) * time.Microsecond)
					r.stopped = true
					w.S.StopConsume(r.CID)
				}
			}
		}(j)
	}
	wg.Wait()
	<-pubDone
	// let live consumers drain, then close
	drained := Eventually(waitBudget, func() bool {
		rtpT, _, _, _ := w.S.VerifTables()
		for _, c := range rtpT {
			if c.QueueLen > 0 {
				return false
			}
		}
		return true
	})
	time.Sleep(2 * time.Millisecond)
	w.S.Close()
	rmu.Lock()
	defer rmu.Unlock()
	ok := Eventually(waitBudget, func() bool {
		for _, r := range recs {
			if r.CloseCalls() < 1 {
				return false
			}
		}
		return true
	})
	if !ok {
		return Outcome{Name: name, Fail: "a consumer was never released after Stream.Close"}
	}
	time.Sleep(2 * time.Millisecond)
	for _, r := range recs {
		if n := r.CloseCalls(); n != 1 {
			return Outcome{Name: name, Fail: fmt.Sprintf("Consumer.Close called %d times for consumer %d", n, r.Name)}
		}
		if r.Corrupt() != 0 {
			return Outcome{Name: name, Fail: "a delivered packet is not the published object / bytes"}
		}
		d := r.Delivered()
		seen := map[uint32]bool{}
		for _, u := range d {
			if seen[u] {
				return Outcome{Name: name, Fail: fmt.Sprintf("consumer %d received packet %d twice: %v", r.Name, u, d)}
			}
			seen[u] = true
		}
	}
	// the trace line for the Lean oracle: published packets in order, delivered lists per consumer
	var tb strings.Builder
	fmt.Fprintf(&tb, "trace %s 1 ", b01(hevc))
	w.mu.Lock()
	for i, uid := range w.Order {
		if i > 0 {
			tb.WriteByte(',')
		}
		p := w.pubs[uid]
		fmt.Fprintf(&tb, "%d:%d:%s", p.Channel, TsOf(p), hexOf(p.Payload()))
	}
	w.mu.Unlock()
	tb.WriteByte(' ')
	for i, r := range recs {
		if i > 0 {
			tb.WriteByte(';')
		}
		d := r.Delivered()
		if !r.stopped && drained {
			// attached until the stream closed, queues drained before the close, far fewer packets than
			// the backlog limit: this consumer must have received EVERYTHING from its join on
			tb.WriteByte('!')
		}
		if len(d) == 0 {
			tb.WriteByte('.')
		}
		for j, u := range d {
			if j > 0 {
				tb.WriteByte('.')
			}
			fmt.Fprintf(&tb, "%d", u)
		}
	}
	traceLine := tb.String()
	_, _, rc, fc := w.S.VerifTables()
	if rc != 0 || fc != 0 || w.S.ConsumerCount() != 0 {
		return Outcome{Name: name, Fail: fmt.Sprintf("consumer counters %d/%d after close", rc, fc)}
	}
	return Outcome{Name: name, Trace: traceLine}
}

func hexOf(b []byte) string {
	if len(b) == 0 {
		return "-"
	}
	const hx = "0123456789abcdef"
	o := make([]byte, 0, 2*len(b))
	for _, c := range b {
		o = append(o, hx[c>>4], hx[c&15])
	}
	return string(o)
}

// ScStapParamsetsIdr: the key frame arrives as ONE aggregation packet SPS+PPS+IDR (a legal and
// common packetisation).  Property (C02): a late joiner gets every packet from the start of
// the most recent key frame onward.
func ScStapParamsetsIdr(hevc bool) Outcome {
	name := "stap-paramsets-with-idr"
	w := NewWorld(hevc, true)
	defer w.S.Close()
	types := []byte{7, 8, 5}
	if hevc {
		types = []byte{32, 33, 34, 19}
	}
	w.PublishWith(func(uid uint32) *rtp.Packet { return MkRaw(uid, RawSpec{Mode: 1, Types: types}, hevc) })
	w.Publish(KNonKey, 2)
	w.Publish(KNonKey, 2)
	r := w.NewRec()
	w.Join(r, true)
	w.Quiesce()
	Eventually(2*time.Second, func() bool { return len(r.Delivered()) >= 3 })
	d := r.Delivered()
	if fmt.Sprint(d) != "[1 2 3]" {
		return Outcome{Name: name, Fail: fmt.Sprintf("joiner after [STAP(SPS,PPS,IDR), P, P] received %v, expected [1 2 3]: the aggregation packet is cached as 'the SPS packet', the key frame is not recognised and the GOP cache never starts", d)}
	}
	return Outcome{Name: name}
}

// ScStalledAtStreamEnd: the delivery goroutine is blocked inside Consume (a client that stopped
// reading) when the stream ends.  Property (C03): the consumer's connection is closed promptly.
// The code closes a transport only from its own delivery goroutine, so a blocked one is released
// only when its write returns (open finding stalled-consumer-not-released-at-stream-end); once it
// does return the release must happen, exactly once.
func ScStalledAtStreamEnd(flvTable bool, hevc bool) Outcome {
	name := "stalled-consumer-not-released-at-stream-end"
	w := NewWorld(hevc, false)
	r := w.NewRec()
	if flvTable {
		r.Flv = true
		r.CID = w.S.StartConsumeNoGopCache(r, media.FLVPacket, "verif")
	} else {
		w.Join(r, false)
	}
	r.Stall()
	for i := 0; i < 2; i++ {
		if flvTable {
			w.S.WriteFlvTag(&flv.Tag{TagType: flv.TagTypeVideo, Timestamp: uint32(i), Data: []byte{0x27, 1, 0, 0, 0, byte(i)}})
		} else {
			w.Publish(KNonKey, 2)
		}
	}
	if !Eventually(waitBudget, r.Blocked) {
		w.S.Close()
		r.Resume()
		return Outcome{Name: name, Skipped: "the consumer never entered Consume"}
	}
	w.S.Close()
	time.Sleep(300 * time.Millisecond)
	releasedWhileBlocked := r.CloseCalls() >= 1
	r.Resume()
	if !Eventually(waitBudget, func() bool { return r.CloseCalls() >= 1 }) {
		return Outcome{Name: "stalled-consumer-never-released", Fail: "a consumer that was blocked inside Consume when the stream ended is not released even after its write returned", Detail: w.Observe()}
	}
	time.Sleep(2 * time.Millisecond)
	if n := r.CloseCalls(); n != 1 {
		return Outcome{Name: "stalled-consumer-never-released", Fail: fmt.Sprintf("Consumer.Close called %d times", n), Detail: w.Observe()}
	}
	if !releasedWhileBlocked {
		return Outcome{Name: name, Fail: "the stream ended while the delivery goroutine was blocked inside Consume: the consumer's connection is not closed until its write returns (Consumer.Close is only ever called by that goroutine)", Detail: "Close calls after 300 ms: 0"}
	}
	return Outcome{Name: name}
}

// ScSelfStop: the consumer stops its own consumption from inside Consume (what every transport
// does on a write error).  Property (C04/C03): it is detached and closed exactly once, the
// publisher and the other consumer are unaffected.
func ScSelfStop(flvTable bool, hevc bool) Outcome {
	name := "consumer-stops-itself"
	if flvTable {
		name += "-flv"
	}
	w := NewWorld(hevc, true)
	defer w.S.Close()
	good := w.NewRec()
	w.Join(good, false)
	bad := w.NewRec()
	bad.SelfStopAt = 2
	if flvTable {
		bad.Flv = true
		bad.SelfStopAt = 1 // the recording consumer does not count FLV tags: stop at the first one
		bad.CID = w.S.StartConsumeNoGopCache(bad, media.FLVPacket, "verif")
		for i := 0; i < 3; i++ {
			w.S.WriteFlvTag(&flv.Tag{TagType: flv.TagTypeVideo, Timestamp: uint32(i), Data: []byte{0x27, 1, 0, 0, 0, byte(i)}})
		}
	} else {
		w.Join(bad, false)
	}
	pubDone := make(chan struct{})
	go func() {
		defer close(pubDone)
		for i := 0; i < 40; i++ {
			w.Publish(KNonKey, 3)
		}
	}()
	select {
	case <-pubDone:
	case <-time.After(waitBudget):
		return Outcome{Name: name, Fail: "the publisher is blocked by a consumer that stopped itself", Detail: w.Observe()}
	}
	detached := func() bool {
		rtpT, flvT, _, _ := w.S.VerifTables()
		for _, c := range append(rtpT, flvT...) {
			if c.CID == bad.CID {
				return false
			}
		}
		return bad.CloseCalls() >= 1
	}
	if !Eventually(waitBudget, detached) {
		return Outcome{Name: name, Fail: fmt.Sprintf("a consumer that stopped itself inside Consume is not detached and closed: Close calls %d, consumer count %d", bad.CloseCalls(), w.S.ConsumerCount()), Detail: w.Observe()}
	}
	time.Sleep(2 * time.Millisecond)
	if n := bad.CloseCalls(); n != 1 {
		return Outcome{Name: name, Fail: fmt.Sprintf("Consumer.Close called %d times", n), Detail: w.Observe()}
	}
	if !Eventually(waitBudget, func() bool { return len(good.Delivered()) == 40 }) {
		return Outcome{Name: name, Fail: fmt.Sprintf("the other consumer received %d of 40 packets", len(good.Delivered())), Detail: w.Observe()}
	}
	return Outcome{Name: name}
}

// ScGopReplayNonVideo: audio published after the key frame is not part of the replay (the caches
// keep video packets only).  Property (C02): "every packet from the start of the most recent key
// frame onward" — open finding gop-replay-omits-non-video.
func ScGopReplayNonVideo(hevc bool) Outcome {
	name := "gop-replay-omits-non-video"
	w := NewWorld(hevc, true)
	defer w.S.Close()
	if hevc {
		w.Publish(KVps, 2)
	}
	w.Publish(KSps, 2)
	w.Publish(KPps, 2)
	w.Publish(KKey, 2)
	w.Publish(KAudio, 2)
	w.Publish(KNonKey, 2)
	r := w.NewRec()
	w.Join(r, true)
	if !w.Quiesce() {
		return Outcome{Name: "gop-replay-no-quiescence", Skipped: "no quiescence"}
	}
	d := r.Delivered()
	var all []uint32
	for u := uint32(1); u <= w.nextID; u++ {
		all = append(all, u)
	}
	if fmt.Sprint(d) == fmt.Sprint(all) {
		return Outcome{Name: name}
	}
	return Outcome{Name: name, Fail: fmt.Sprintf("joiner after [parameter sets, key, AUDIO, non-key] was replayed %v of %v: the audio packet published since the key frame is not in the replay (CachePack ignores every channel but video)", d, all)}
}

// ScPanicBadClose: a consumer panics in Consume AND its Close misbehaves (panics, or blocks for good).
// Property (C04): it is nevertheless detached from the stream (no longer counted, no longer fed),
// and the publisher and the other consumer are unaffected.
func ScPanicBadClose(closeMode string, flvTable bool, hevc bool) Outcome {
	name := "panic-with-close-" + closeMode
	if flvTable {
		name += "-flv"
	}
	w := NewWorld(hevc, true)
	defer w.S.Close()
	good := w.NewRec()
	w.Join(good, false)
	bad := w.NewRec()
	bad.PanicAt = 1
	bad.CloseMode = closeMode
	bad.CloseGate = make(chan struct{})
	bad.closeIn = make(chan struct{})
	defer close(bad.CloseGate)
	if flvTable {
		bad.Flv = true
		bad.CID = w.S.StartConsumeNoGopCache(bad, media.FLVPacket, "verif")
		w.S.WriteFlvTag(&flv.Tag{TagType: flv.TagTypeVideo, Timestamp: 1, Data: []byte{0x17, 1, 0, 0, 0, 9}})
	} else {
		w.Join(bad, false)
	}
	pubDone := make(chan struct{})
	go func() {
		defer close(pubDone)
		for i := 0; i < 40; i++ {
			w.Publish(KNonKey, 3)
		}
	}()
	select {
	case <-pubDone:
	case <-time.After(60 * time.Second):
		return Outcome{Name: name, Fail: "the publisher is blocked by a consumer that panicked", Detail: w.Observe()}
	}
	select {
	case <-bad.closeIn:
	case <-time.After(60 * time.Second):
		return Outcome{Name: name, Fail: "the panicking consumer is never closed", Detail: w.Observe()}
	}
	detached := func() bool {
		rtpT, flvT, _, _ := w.S.VerifTables()
		for _, c := range append(rtpT, flvT...) {
			if c.CID == bad.CID {
				return false
			}
		}
		return true
	}
	if !Eventually(30*time.Second, detached) {
		return Outcome{Name: name, Fail: fmt.Sprintf("a consumer that panicked (and whose Close %ss) is still attached: consumer count %d", closeMode, w.S.ConsumerCount()), Detail: w.Observe()}
	}
	if !Eventually(30*time.Second, func() bool { return len(good.Delivered()) == 40 }) {
		return Outcome{Name: name, Fail: fmt.Sprintf("the other consumer received %d of 40 packets", len(good.Delivered())), Detail: w.Observe()}
	}
	return Outcome{Name: name}
}

// ScBacklogStap: same packetisation with a stalled consumer.  Property (C04): the backlog stays
// within limit + one GOP + replay.
func ScBacklogStap(hevc bool) Outcome {
	name := "stap-paramsets-with-idr"
	w := NewWorld(hevc, true)
	defer w.S.Close()
	types := []byte{7, 8, 5}
	if hevc {
		types = []byte{32, 33, 34, 19}
	}
	r := w.NewRec()
	w.Join(r, true)
	r.Stall()
	defer r.Resume()
	const gop = 6
	for i := 0; i < 1300; i++ {
		if i%gop == 0 {
			w.PublishWith(func(uid uint32) *rtp.Packet { return MkRaw(uid, RawSpec{Mode: 1, Types: types}, hevc) })
		} else {
			w.Publish(KNonKey, 0)
		}
	}
	rtpT, _, _, _ := w.S.VerifTables()
	for _, c := range rtpT {
		if c.QueueLen > 1000+gop+0 {
			return Outcome{Name: name, Fail: fmt.Sprintf("backlog of a stalled consumer is %d packets (> 1000 + GOP %d): key frames sent as STAP(SPS,PPS,IDR) are never reported as key frames, so dropping never starts", c.QueueLen, gop)}
		}
	}
	return Outcome{Name: name}
}

// ScCloseDuringJoin: the joiner is parked after its status check (inside startConsume, before it
// registers) while the stream is closed; then it continues.  Property (C03): a consumer that is
// attaching at the very moment the stream ends is closed too, and the count is zero.
func ScCloseDuringJoin(flvTable bool, hevc bool) Outcome {
	name := "close-during-join"
	if flvTable {
		name = "close-during-join-flv"
	}
	g := InstallGates()
	defer g.Uninstall()
	w := NewWorld(hevc, true)
	w.Publish(KSps, 2)
	gt := g.Arm("stream.join.snapshotted", 0)
	r := w.NewRec()
	fr := &FRec{gate: make(chan struct{}, 1), world: &FlvWorld{sums: map[uint32]uint64{}, typ: map[uint32]byte{}}}
	closeCalls := func() int {
		if flvTable {
			return int(atomic.LoadInt32(&fr.closes))
		}
		return r.CloseCalls()
	}
	joined := make(chan struct{})
	go func() {
		if flvTable {
			fr.CID = w.S.StartConsume(fr, media.FLVPacket, "verif")
		} else {
			w.Join(r, true)
		}
		close(joined)
	}()
	if !gt.WaitReached(gateWait) {
		w.S.Close()
		return Outcome{Name: name, Skipped: "stream.join.snapshotted not reached"}
	}
	closed := make(chan struct{})
	go func() { w.S.Close(); close(closed) }()
	select {
	case <-closed: // a closer that does not wait for the attaching consumer
	case <-time.After(300 * time.Millisecond):
	}
	gt.Release()
	<-joined
	<-closed
	ok := Eventually(waitBudget, func() bool { return closeCalls() >= 1 })
	time.Sleep(2 * time.Millisecond)
	if !ok {
		return Outcome{Name: name, Fail: "a consumer attaching while the stream is being closed is never closed (left registered on a dead stream)", Detail: w.Observe()}
	}
	if n := closeCalls(); n != 1 {
		return Outcome{Name: name, Fail: fmt.Sprintf("Consumer.Close called %d times", n)}
	}
	if c := w.S.ConsumerCount(); c != 0 {
		return Outcome{Name: name, Fail: fmt.Sprintf("consumer count %d after the stream was closed", c), Detail: w.Observe()}
	}
	return Outcome{Name: name}
}
