package medialib

import (
	"fmt"
	"strings"
	"sync/atomic"
	"time"

	"github.com/cnotch/ipchub/av/format/rtp"

	"verifharness/hlib"
)

// Op of a sequential script
type Op struct {
	Code   byte     // P J S X T R
	Kind   Kind     // P
	Extra  int      // P
	Name   int      // J S T R
	Gop    bool     // J
	Panic  int      // J
	Raw    *RawSpec // P with arbitrary NAL types
	SameTs bool     // P: the packet carries the RTP timestamp of the previously published packet (same access unit)
}

func (o Op) String() string {
	switch o.Code {
	case 'P':
		if o.Raw != nil {
			return fmt.Sprintf("Praw(mode=%d,types=%v,start=%v)", o.Raw.Mode, o.Raw.Types, o.Raw.Start)
		}
		if o.SameTs {
			return fmt.Sprintf("P%s(same-ts)", KindNames[o.Kind])
		}
		return fmt.Sprintf("P%s", KindNames[o.Kind])
	case 'J':
		return fmt.Sprintf("J%d(gop=%v,panic=%d)", o.Name, o.Gop, o.Panic)
	case 'X':
		return "X"
	}
	return fmt.Sprintf("%c%d", o.Code, o.Name)
}

// Script with its configuration
type Script struct {
	Hevc, Gop bool
	MaxQ      int // 0 = the source's limit; otherwise every consumption's limit is overridden after its join
	Ops       []Op
}

// Line renders the driver line: every P op carries the actual RTP payload bytes
func (sc Script) Line(tag string) string {
	var b strings.Builder
	fmt.Fprintf(&b, "%s script %s %s %d", tag, b01(sc.Hevc), b01(sc.Gop), sc.MaxQ)
	uid := uint32(0)
	lastTs := uint32(0)
	for _, o := range sc.Ops {
		switch o.Code {
		case 'P':
			uid++
			p := MkPkt(uid, o.Kind, sc.Hevc, o.Extra)
			if o.Raw != nil {
				p = MkRaw(uid, *o.Raw, sc.Hevc)
			}
			lastTs = Stamp(p, o.SameTs, lastTs)
			fmt.Fprintf(&b, " P:%d:%d:%s", p.Channel, TsOf(p), hlib.Hx(p.Payload()))
		case 'J':
			fmt.Fprintf(&b, " J:%d:%s:%d", o.Name, b01(o.Gop), o.Panic)
		case 'X':
			b.WriteString(" X")
		default:
			fmt.Fprintf(&b, " %c:%d", o.Code, o.Name)
		}
	}
	return b.String()
}

// RunImpl executes the script on a real media.Stream; after each op it waits until the
// observation equals the expected one (from the model) or a generous timeout expires.
// Returns the index of the first op whose observation differs (-1 if none) and the
// observed / expected strings at that point.
func (sc Script) RunImpl(expected []string) (int, string, string) {
	InstallCounters()
	pops0 := atomic.LoadInt64(&demuxPops)
	// every second H.264 script runs on a stream whose SDP has no parameter sets (a function of the
	// script alone, so a case line replays the same way)
	w := NewWorldSdp(sc.Hevc, sc.Gop, !sc.Hevc && len(sc.Ops)%2 == 1)
	published, catchUp := int64(0), true
	defer func() {
		for _, r := range w.Recs {
			r.Resume()
		}
		w.S.Close()
	}()
	recs := map[int]*Rec{}
	for i, o := range sc.Ops {
		o := o
		done := make(chan struct{})
		var blockedOp bool
		go func() {
			defer close(done)
			switch o.Code {
			case 'P':
				var perr error
				if o.Raw != nil {
					raw := *o.Raw
					_, _, perr = w.PublishWith(func(uid uint32) *rtp.Packet { return w.stamp(MkRaw(uid, raw, sc.Hevc), o.SameTs) })
				} else {
					kind, extra, same := o.Kind, o.Extra, o.SameTs
					_, _, perr = w.PublishWith(func(uid uint32) *rtp.Packet { return w.stamp(MkPkt(uid, kind, sc.Hevc, extra), same) })
				}
				if perr == nil {
					published++
				}
				if catchUp && perr == nil {
					// let the stream's own demuxer take the packet (it passes its pop once at start and once
					// per packet); no verdict hangs on this wait, a demuxer that died just ends the waiting
					catchUp = Eventually(2*time.Second, func() bool { return atomic.LoadInt64(&demuxPops) >= pops0+1+published })
					if !catchUp {
						atomic.AddInt64(&CatchUpLost, 1)
					}
				}
			case 'J':
				if _, dup := recs[o.Name]; !dup {
					r := w.NewRec()
					r.Name = o.Name
					r.PanicAt = o.Panic
					recs[o.Name] = r
					w.Join(r, o.Gop)
					if sc.MaxQ > 0 {
						w.S.VerifSetMaxQLen(r.CID, sc.MaxQ)
					}
				}
			case 'S':
				if r := recs[o.Name]; r != nil {
					w.S.StopConsume(r.CID)
				}
			case 'X':
				w.S.Close()
			case 'T':
				if r := recs[o.Name]; r != nil {
					r.Stall()
				}
			case 'R':
				if r := recs[o.Name]; r != nil {
					r.Resume()
				}
			}
		}()
		select {
		case <-done:
		case <-time.After(opBudgetNow()):
			blockedOp = true
		}
		if blockedOp {
			// publish / join / stop / close never wait for a consumer: an operation that does not
			// return is itself the failure (C04: nobody is blocked or delayed by a slow consumer)
			return i, "blocked: the operation did not return (" + o.String() + ")", expectedAt(expected, i)
		}
		if i >= len(expected) {
			return i, w.Observe(), "(no expectation)"
		}
		want := expected[i]
		got := ""
		ok := Eventually(opBudgetNow(), func() bool { got = w.Observe(); return got == want })
		if !ok {
			return i, got, want
		}
	}
	return -1, "", ""
}

// GenScript draws a random script. profile selects the emphasis:
// "mixed" (everything), "join" (joins at every prefix), "backlog" (long runs with a stalled consumer)
func GenScript(r *hlib.Rng, profile string, maxOps int) Script {
	sc := Script{Hevc: r.Chance(40), Gop: r.Chance(65)}
	if profile == "backlog" || r.Chance(25) {
		sc.MaxQ = 2 + r.Intn(9)
	}
	n := 3 + r.Intn(maxOps)
	names := 0
	live := []int{}
	stalled := map[int]bool{}
	closed := false
	pubKind := func() Kind {
		x := r.Intn(100)
		switch {
		case x < 38:
			return KNonKey
		case x < 50:
			return KKey
		case x < 56:
			return KSps
		case x < 62:
			return KPps
		case x < 66:
			return KVps
		case x < 70:
			return KStapPS
		case x < 76:
			return KFuKeyS
		case x < 80:
			return KFuKeyM
		case x < 84:
			return KFuNonS
		case x < 87:
			return KStapKey
		case x < 95:
			return KAudio
		case x < 98:
			return KRtcpV
		}
		return KRtcpA
	}
	for i := 0; i < n; i++ {
		x := r.Intn(100)
		switch {
		case (profile == "classify" && x < 55) || (profile == "backlog" && x < 30):
			sc.Ops = append(sc.Ops, Op{Code: 'P', Raw: GenRaw(r, sc.Hevc)})
		case x < 55 || (profile == "backlog" && x < 85):
			sc.Ops = append(sc.Ops, genPub(r, pubKind())...)
		case x < 70:
			pa := 0
			if r.Chance(12) {
				pa = 1 + r.Intn(4)
			}
			sc.Ops = append(sc.Ops, Op{Code: 'J', Name: names, Gop: !r.Chance(20), Panic: pa})
			live = append(live, names)
			names++
		case x < 78 && len(live) > 0:
			k := r.Intn(len(live))
			sc.Ops = append(sc.Ops, Op{Code: 'S', Name: live[k]})
			if r.Chance(80) {
				live = append(live[:k], live[k+1:]...)
			}
		case x < 86 && len(live) > 0:
			k := live[r.Intn(len(live))]
			if stalled[k] {
				sc.Ops = append(sc.Ops, Op{Code: 'R', Name: k})
				stalled[k] = false
			} else {
				sc.Ops = append(sc.Ops, Op{Code: 'T', Name: k})
				stalled[k] = true
			}
		case x < 89 && !closed && i > n/2:
			sc.Ops = append(sc.Ops, Op{Code: 'X'})
			closed = r.Chance(70)
		default:
			sc.Ops = append(sc.Ops, genPub(r, pubKind())...)
		}
	}
	return sc
}

// genPub: one publish op — or, for a key-frame slice, sometimes a key frame of several slice packets
// (same RTP timestamp); any packet may share the timestamp of its predecessor (parameter sets and the
// slices of one access unit do)
func genPub(r *hlib.Rng, k Kind) (ops []Op) {
	ops = []Op{{Code: 'P', Kind: k, Extra: genExtra(r), SameTs: r.Chance(25)}}
	// every packet of one key frame carries the same H.265 IRAP type (16..21, derived from the first
	// packet's body length: no extra random draw), see MkPkt
	defer func() {
		t := 1 + ops[0].Extra%6
		for i := range ops {
			switch ops[i].Kind {
			case KKey, KFuKeyS, KFuKeyM, KStapKey:
				ops[i].Extra |= t << 8
			}
		}
	}()
	if (k == KKey || k == KFuKeyS) && r.Chance(45) {
		// a key frame of 2–3 slices, each a single NAL packet or fragmented (start fragment + later
		// fragments), all with one timestamp
		frag := func(same bool) {
			ops = append(ops, Op{Code: 'P', Kind: KFuKeyS, Extra: genExtra(r), SameTs: same})
			for m := 1 + r.Intn(2); m > 0; m-- {
				ops = append(ops, Op{Code: 'P', Kind: KFuKeyM, Extra: genExtra(r), SameTs: true})
			}
		}
		if k == KFuKeyS {
			for m := 1 + r.Intn(2); m > 0; m-- {
				ops = append(ops, Op{Code: 'P', Kind: KFuKeyM, Extra: genExtra(r), SameTs: true})
			}
		}
		for n := 1 + r.Intn(2); n > 0; n-- {
			same := !r.Chance(10)
			if r.Chance(50) {
				frag(same)
			} else {
				ops = append(ops, Op{Code: 'P', Kind: KKey, Extra: genExtra(r), SameTs: same})
			}
		}
	}
	return ops
}

// GenRaw draws a well-formed packet with arbitrary NAL types
func GenRaw(r *hlib.Rng, hevc bool) *RawSpec {
	maxT := 24
	if hevc {
		maxT = 48
	}
	interesting := []byte{1, 5, 6, 7, 8, 9, 12}
	if hevc {
		interesting = []byte{0, 1, 16, 19, 20, 21, 22, 32, 33, 34, 35, 39}
	}
	ty := func() byte {
		if r.Chance(60) {
			return interesting[r.Intn(len(interesting))]
		}
		return byte(r.Intn(maxT))
	}
	sp := &RawSpec{Mode: r.Intn(3), Extra: r.Intn(5)}
	switch sp.Mode {
	case 0, 2:
		sp.Types = []byte{ty()}
		sp.Start = r.Chance(60)
	case 1:
		n := 1 + r.Intn(3)
		for i := 0; i < n; i++ {
			sp.Types = append(sp.Types, ty())
		}
	}
	return sp
}

// opBudget: how long an observation may take to reach the expected one (costs nothing when it
// does).  Generous as long as nothing has failed; once a difference has been CONFIRMED (seen again
// in a second run of the same script) the tree under test is wrong anyway and the remaining
// scripts only look for further replays: they wait briefly, and after a handful of findings the
// rest is not run at all — a failing tree is reported in minutes, not after every watchdog.
var confirmedFailures int64

func opBudgetNow() time.Duration {
	if atomic.LoadInt64(&confirmedFailures) > 0 {
		return 3 * time.Second
	}
	return 45 * time.Second
}

const maxFindingsPerRun = 6

// CatchUpLost counts the scripts in which the stream's demuxer stopped following the publisher
var CatchUpLost int64

// genExtra: mostly tiny bodies; one in five is larger and carries emulation-prevention patterns
func genExtra(r *hlib.Rng) int {
	if r.Chance(20) {
		return 8 + r.Intn(33)
	}
	return r.Intn(6)
}

func expectedAt(e []string, i int) string {
	if len(e) == 0 {
		return ""
	}
	if i >= len(e) {
		i = len(e) - 1
	}
	return e[i]
}

// RunFree executes the script on a fresh stream WITHOUT comparing with the model (used once model
// and implementation are known to differ on it): every op runs, the consumers drain, and what each
// consumer was delivered is returned together with the number of packets published before it
// attached — the input of the specification's own oracles (Lean: dropAligned).
func (sc Script) RunFree() (names []int, joinedAt, detachedAt map[int]int, delivered map[int][]uint32) {
	InstallCounters()
	w := NewWorldSdp(sc.Hevc, sc.Gop, !sc.Hevc && len(sc.Ops)%2 == 1)
	defer func() {
		for _, r := range w.Recs {
			r.Resume()
		}
		w.S.Close()
	}()
	recs := map[int]*Rec{}
	joinedAt, detachedAt, delivered = map[int]int{}, map[int]int{}, map[int][]uint32{}
	published, closed := 0, false
	for _, o := range sc.Ops {
		o := o
		// before a consumer is detached it drains (any execution of the script will do for the
		// oracle; this one makes "not delivered" mean "dropped for backlog")
		if o.Code == 'S' {
			if r := recs[o.Name]; r != nil {
				r.Resume()
				w.Quiesce2(2 * time.Second)
				if _, done := detachedAt[o.Name]; !done {
					detachedAt[o.Name] = published
				}
			}
		}
		if o.Code == 'X' && !closed {
			for n, r := range recs {
				r.Resume()
				if _, done := detachedAt[n]; !done {
					detachedAt[n] = published
				}
			}
			w.Quiesce2(2 * time.Second)
			closed = true
		}
		done := make(chan struct{})
		go func() {
			defer close(done)
			switch o.Code {
			case 'P':
				if o.Raw != nil {
					raw := *o.Raw
					w.PublishWith(func(uid uint32) *rtp.Packet { return w.stamp(MkRaw(uid, raw, sc.Hevc), o.SameTs) })
				} else {
					w.PublishWith(func(uid uint32) *rtp.Packet { return w.stamp(MkPkt(uid, o.Kind, sc.Hevc, o.Extra), o.SameTs) })
				}
			case 'J':
				if _, dup := recs[o.Name]; !dup {
					r := w.NewRec()
					r.Name = o.Name
					r.PanicAt = o.Panic
					recs[o.Name] = r
					names = append(names, o.Name)
					joinedAt[o.Name] = published
					if closed {
						detachedAt[o.Name] = published
					}
					w.Join(r, o.Gop)
					if sc.MaxQ > 0 {
						w.S.VerifSetMaxQLen(r.CID, sc.MaxQ)
					}
				}
			case 'S':
				if r := recs[o.Name]; r != nil {
					w.S.StopConsume(r.CID)
				}
			case 'X':
				w.S.Close()
			case 'T':
				if r := recs[o.Name]; r != nil {
					r.Stall()
				}
			case 'R':
				if r := recs[o.Name]; r != nil {
					r.Resume()
				}
			}
		}()
		select {
		case <-done:
		case <-time.After(10 * time.Second):
			return
		}
		if o.Code == 'P' && !closed {
			published++
		}
		w.Quiesce2(2 * time.Second)
	}
	for _, r := range w.Recs {
		r.Resume()
	}
	w.Quiesce2(3 * time.Second)
	for n, r := range recs {
		delivered[n] = r.Delivered()
		if _, done := detachedAt[n]; !done {
			detachedAt[n] = published
		}
		if r.PanicAt != 0 {
			// a consumer that panics is detached by its own goroutine at a point the script does not
			// name: it is left out of the alignment judgement
			detachedAt[n] = joinedAt[n]
		}
	}
	return
}

// AlignLine renders the driver line of the alignment oracle for what RunFree observed
func (sc Script) AlignLine(tag string, names []int, joinedAt, detachedAt map[int]int, delivered map[int][]uint32) string {
	f := strings.Fields(sc.Line(tag))
	var b strings.Builder
	fmt.Fprintf(&b, "%s align %s", tag, b01(sc.Hevc))
	for _, t := range f {
		if strings.HasPrefix(t, "P:") {
			b.WriteString(" " + t)
		}
	}
	for _, n := range names {
		fmt.Fprintf(&b, " C:%d:%d:", joinedAt[n], detachedAt[n])
		for i, u := range delivered[n] {
			if i > 0 {
				b.WriteByte('.')
			}
			fmt.Fprintf(&b, "%d", u)
		}
		if len(delivered[n]) == 0 {
			b.WriteByte('.')
		}
	}
	return b.String()
}
