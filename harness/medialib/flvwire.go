package medialib

import (
	"bytes"
	"encoding/binary"
	"fmt"
	"io"
	"net/http"
	"net/http/httptest"
	"strings"
	"sync"
	"time"
	"unsafe"

	"github.com/cnotch/ipchub/av/format/flv"
	"github.com/cnotch/ipchub/media"
	"github.com/cnotch/ipchub/network/websocket"
	sflv "github.com/cnotch/ipchub/service/flv"
	"github.com/cnotch/ipchub/stats"
	"github.com/cnotch/xlog"
	gws "github.com/gorilla/websocket"
	. "verifharness/hlib"
)

// FLV wire run: real HTTP-FLV and WebSocket-FLV clients of a registered stream.  What they
// receive must parse as FLV and carry exactly the tags written after the attach (order, type,
// bytes, timestamps rebased to the first tag); when the stream is closed the connection ends,
// the consumer is detached and the FLV connection counter is back to its prior value.

type flvTagSeen struct {
	typ  byte
	ts   uint32
	data []byte
}

func parseFlv(b []byte) (flags byte, tags []flvTagSeen, err error) {
	if len(b) < 13 || string(b[:3]) != "FLV" || b[3] != 1 || binary.BigEndian.Uint32(b[5:9]) != 9 || binary.BigEndian.Uint32(b[9:13]) != 0 {
		return 0, nil, fmt.Errorf("bad FLV file header %x", b[:minInt(len(b), 13)])
	}
	flags = b[4]
	p := 13
	for p < len(b) {
		if p+11 > len(b) {
			return flags, tags, fmt.Errorf("truncated tag header at %d", p)
		}
		typ := b[p] & 0x1f
		size := int(b[p+1])<<16 | int(b[p+2])<<8 | int(b[p+3])
		ts := uint32(b[p+4])<<16 | uint32(b[p+5])<<8 | uint32(b[p+6]) | uint32(b[p+7])<<24
		if p+11+size+4 > len(b) {
			return flags, tags, fmt.Errorf("truncated tag body at %d (size %d)", p, size)
		}
		data := b[p+11 : p+11+size]
		prev := binary.BigEndian.Uint32(b[p+11+size:])
		if int(prev) != 11+size {
			return flags, tags, fmt.Errorf("tag at %d followed by size %d, expected %d", p, prev, 11+size)
		}
		tags = append(tags, flvTagSeen{typ, ts, append([]byte(nil), data...)})
		p += 11 + size + 4
	}
	return flags, tags, nil
}

func minInt(a, b int) int {
	if a < b {
		return a
	}
	return b
}

var flvSrvOnce sync.Once
var flvSrv *httptest.Server

func flvServer() *httptest.Server {
	flvSrvOnce.Do(func() {
		flvSrv = httptest.NewServer(http.HandlerFunc(func(w http.ResponseWriter, r *http.Request) {
			if strings.HasPrefix(r.URL.Path, "/ws") {
				p := strings.TrimPrefix(r.URL.Path, "/ws")
				if c, ok := websocket.TryUpgrade(w, r, p, ""); ok {
					sflv.ConsumeByWebsocket(xlog.L(), p, r.RemoteAddr, c)
				}
				return
			}
			sflv.ConsumeByHTTP(xlog.L(), r.URL.Path, r.RemoteAddr, w)
		}))
	})
	return flvSrv
}

func runFlvWire(c *Ctx, ws bool, seed uint64, idx int) {
	kind := "http-flv"
	if ws {
		kind = "ws-flv"
	}
	key := fmt.Sprintf("flvwire %s seed=%d", kind, seed)
	c.Count("wire-" + kind)
	fail := func(class, impl, spec string) {
		c.Find(Finding{Kind: "oracle", Class: class, Case: key, Impl: impl, Spec: spec,
			Detail: "bytes received by a real " + kind + " client vs FLV tags written to the stream"})
	}
	path := fmt.Sprintf("/wire/flv%d", idx)
	s := media.NewStream(path, SdpH264)
	media.Regist(s)
	defer media.Unregist(s)
	before := stats.FlvConns.GetSample().Active
	srv := flvServer()
	var got bytes.Buffer
	var gmu sync.Mutex
	done := make(chan struct{})
	var closeClient func()
	if ws {
		d := gws.Dialer{HandshakeTimeout: 20 * time.Second}
		cc, _, err := d.Dial("ws"+strings.TrimPrefix(srv.URL, "http")+"/ws"+path, nil)
		if err != nil {
			c.Find(Finding{Kind: "corr", Class: "flvwire-dial", Case: key, Impl: err.Error()})
			return
		}
		closeClient = func() { cc.Close() }
		go func() {
			defer close(done)
			for {
				_, m, err := cc.ReadMessage()
				if err != nil {
					return
				}
				gmu.Lock()
				got.Write(m)
				gmu.Unlock()
			}
		}()
	} else {
		// the response headers only arrive once the server flushes: request and read in one goroutine
		cl := &http.Client{}
		var respMu sync.Mutex
		var respBody io.ReadCloser
		closeClient = func() {
			cl.CloseIdleConnections()
			respMu.Lock()
			if respBody != nil {
				respBody.Close()
			}
			respMu.Unlock()
		}
		go func() {
			defer close(done)
			resp, err := cl.Get(srv.URL + path)
			if err != nil {
				return
			}
			respMu.Lock()
			respBody = resp.Body
			respMu.Unlock()
			buf := make([]byte, 4096)
			for {
				n, err := resp.Body.Read(buf)
				gmu.Lock()
				got.Write(buf[:n])
				gmu.Unlock()
				if err != nil {
					return
				}
			}
		}()
	}
	defer closeClient()
	if !Eventually(waitBudget, func() bool { return s.ConsumerCount() == 1 }) {
		fail("flvwire-not-attached", "no consumer attached after the request was accepted", "one FLV consumer")
		return
	}
	if a := stats.FlvConns.GetSample().Active; a != before+1 {
		fail("flvwire-counter", fmt.Sprintf("active FLV connections %d while one client is attached (was %d)", a, before), "prior + 1")
	}
	rng := NewRng(seed)
	type wr struct {
		typ  byte
		ts   uint32
		data []byte
	}
	var want []wr
	var tagObjs []*flv.Tag
	var tagSnaps [][]byte
	defer func() {
		for i, t := range tagObjs {
			if !bytes.Equal(rawTag(t), tagSnaps[i]) {
				fail("flvwire-shared-tag-mutated", fmt.Sprintf("the written tag object %d was modified while it was being delivered (it is shared by the cache and all consumers)", i), "consumers and the cache never write to a shared tag")
				return
			}
		}
	}()
	ts := uint32(rng.Intn(5000))
	n := 10 + rng.Intn(60)
	for i := 0; i < n; i++ {
		k := []FlvKind{FMeta, FVSeq, FASeq, FKey, FInter, FInter, FInter, FAudio, FAudio}[rng.Intn(9)]
		if i < 3 {
			k = []FlvKind{FMeta, FVSeq, FASeq}[i]
		}
		ts += uint32(rng.Intn(60))
		t := MkTag(uint32(i+1), k, ts)
		if rng.Chance(8) {
			t.Data = append(t.Data[:len(t.Data)-4], append(rng.Bytes(2000+rng.Intn(70000)), t.Data[len(t.Data)-4:]...)...)
			t.DataSize = uint32(len(t.Data))
		}
		want = append(want, wr{t.TagType, ts, append([]byte(nil), t.Data...)})
		tagObjs = append(tagObjs, t)
		tagSnaps = append(tagSnaps, rawTag(t))
		s.WriteFlvTag(t)
	}
	c.Eval(key, true)
	// all tags consumed, then the stream ends
	Eventually(waitBudget, func() bool {
		_, flvT, _, _ := s.VerifTables()
		for _, x := range flvT {
			if x.QueueLen > 0 {
				return false
			}
		}
		return true
	})
	time.Sleep(5 * time.Millisecond)
	s.Close()
	select {
	case <-done:
	case <-time.After(waitBudget):
		fail("flvwire-not-closed", "the client connection is still open long after the stream was closed", "connection closed when the stream ends")
		return
	}
	if !Eventually(waitBudget, func() bool { return stats.FlvConns.GetSample().Active == before }) {
		fail("flvwire-counter", fmt.Sprintf("active FLV connections %d after the stream ended (was %d before the client)", stats.FlvConns.GetSample().Active, before), "back to the prior value")
	}
	if cc := s.ConsumerCount(); cc != 0 {
		fail("flvwire-count", fmt.Sprintf("consumer count %d after close", cc), "0")
	}
	gmu.Lock()
	raw := append([]byte(nil), got.Bytes()...)
	gmu.Unlock()
	flags, tags, err := parseFlv(raw)
	if err != nil {
		fail("flvwire-not-flv", err.Error(), "FLV header, tags each followed by their exact size")
		return
	}
	if flags != s.FlvTypeFlags() {
		fail("flvwire-flags", fmt.Sprintf("type flags %#x, stream says %#x", flags, s.FlvTypeFlags()), "type flags of the stream")
	}
	if len(tags) != len(want) {
		fail("flvwire-count-tags", fmt.Sprintf("received %d tags of %d written", len(tags), len(want)), "every tag written after the attach, once")
		return
	}
	for i, w := range want {
		g := tags[i]
		if g.typ != w.typ || !bytes.Equal(g.data, w.data) {
			fail("flvwire-bytes", fmt.Sprintf("tag %d differs (type %d/%d, %d/%d bytes) or out of order", i, g.typ, w.typ, len(g.data), len(w.data)), "order and bytes as written")
			return
		}
		if g.ts != w.ts-want[0].ts {
			fail("flvwire-timestamp", fmt.Sprintf("tag %d timestamp %d, expected %d (rebased to the first tag)", i, g.ts, w.ts-want[0].ts), "timestamp − first tag's timestamp")
			return
		}
	}
}

// FlvWireRuns: real HTTP-FLV / WebSocket-FLV clients (see runFlvWire)
func FlvWireRuns(c *Ctx) {
	n := c.Budget(4, 40)
	for i := 0; i < n; i++ {
		runFlvWire(c, i%2 == 1, c.Rng.U64()%1000000, i)
	}
}

var _ = io.EOF

func rawTag(t *flv.Tag) []byte {
	n := int(unsafe.Sizeof(*t))
	b := make([]byte, n)
	copy(b, (*[1 << 12]byte)(unsafe.Pointer(t))[:n:n])
	return b
}
