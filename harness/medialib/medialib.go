// Package medialib drives real media.Stream objects for the C01–C04 checks:
// packet construction, recording consumers with stall/panic control, gates on the
// verif schedule points, and sequential op scripts whose observations are compared
// with the Lean model.
package medialib

import (
	"encoding/binary"
	"fmt"
	"runtime"
	"strings"
	"sync"
	"sync/atomic"
	"time"

	"github.com/cnotch/ipchub/av/format/rtp"
	"github.com/cnotch/ipchub/config"
	"github.com/cnotch/ipchub/media"
	"github.com/cnotch/ipchub/utils/verifhook"
	"github.com/cnotch/xlog"
)

// SDPs (sprop sets included so that the demuxer/flv muxer are "ready")
const SdpH264 = "v=0\r\no=- 0 0 IN IP4 127.0.0.1\r\ns=No Name\r\nc=IN IP4 127.0.0.1\r\nt=0 0\r\nm=video 0 RTP/AVP 96\r\na=rtpmap:96 H264/90000\r\na=fmtp:96 packetization-mode=1; sprop-parameter-sets=Z2QAH6zZQFAFuhAAAAMAEAAAAwPI8YMZYA==,aO+8sA==; profile-level-id=64001F\r\na=control:streamid=0\r\nm=audio 0 RTP/AVP 97\r\na=rtpmap:97 MPEG4-GENERIC/44100/2\r\na=fmtp:97 profile-level-id=1;mode=AAC-hbr;sizelength=13;indexlength=3;indexdeltalength=3; config=121056E500\r\na=control:streamid=1\r\n"

// SdpH264NoSprop: the parameter sets come in band only (the stream's own depacketizer adopts and decodes them)
const SdpH264NoSprop = "v=0\r\no=- 0 0 IN IP4 127.0.0.1\r\ns=No Name\r\nc=IN IP4 127.0.0.1\r\nt=0 0\r\nm=video 0 RTP/AVP 96\r\na=rtpmap:96 H264/90000\r\na=fmtp:96 packetization-mode=1\r\na=control:streamid=0\r\nm=audio 0 RTP/AVP 97\r\na=rtpmap:97 MPEG4-GENERIC/44100/2\r\na=fmtp:97 profile-level-id=1;mode=AAC-hbr;sizelength=13;indexlength=3;indexdeltalength=3; config=121056E500\r\na=control:streamid=1\r\n"
const SdpH265 = "v=0\r\no=- 0 0 IN IP4 127.0.0.1\r\ns=No Name\r\nc=IN IP4 127.0.0.1\r\nt=0 0\r\nm=video 0 RTP/AVP 96\r\na=rtpmap:96 H265/90000\r\na=control:streamid=0\r\n"

// Kind of a generated packet (what its payload looks like to the cache classifier)
type Kind int

const (
	KNonKey  Kind = iota // single NAL, non-IDR slice
	KKey                 // single NAL, IDR / IRAP
	KSps                 // single NAL SPS
	KPps                 // single NAL PPS
	KVps                 // single NAL VPS (H.265 only; H.264: SEI)
	KStapPS              // aggregation packet SPS+PPS
	KFuKeyS              // fragmentation unit, start bit, IDR
	KFuKeyM              // fragmentation unit, middle, IDR
	KFuNonS              // fragmentation unit, start, non-IDR
	KStapKey             // aggregation packet containing an IDR slice (and an SEI)
	KAudio               // AAC-hbr packet on the audio channel
	KRtcpV               // RTCP SR on the video control channel
	KRtcpA               // RTCP SR on the audio control channel
	KindCount
)

var KindNames = []string{"nonkey", "key", "sps", "pps", "vps", "stap-ps", "fu-key-start", "fu-key-mid", "fu-nonkey-start", "stap-key", "audio", "rtcp-v", "rtcp-a"}

// MkPkt builds a packet as ReadPacket would deliver it; the uid is stored in the last four bytes.
func MkPkt(uid uint32, k Kind, hevc bool, extra int) *rtp.Packet {
	var ch byte = rtp.ChannelVideo
	var pl []byte
	// bits 8.. of extra select the H.265 key-frame NAL type of this packet (0 = IDR_W_RADL, else
	// BLA_W_LP + n - 1: every IRAP type 16..21, CRA included); the low byte is the body length
	keyT := byte(19)
	if extra>>8 != 0 {
		keyT = 16 + byte((extra>>8)-1)%6
	}
	extra &= 0xff
	u := make([]byte, 4)
	binary.BigEndian.PutUint32(u, uid)
	fill := make([]byte, extra)
	for i := range fill {
		fill[i] = byte(uid) + byte(i)
	}
	if extra >= 8 {
		// bodies that look like escaped NAL payloads (emulation-prevention sequences 00 00 03 xx):
		// code that parses or normalises a unit must not do it in the published buffer
		for i := range fill {
			fill[i] = [4]byte{0, 0, 3, byte(uid) & 3}[i%4]
		}
	}
	body := append(append([]byte{}, fill...), u...)
	nal := func(t264 byte, t265 byte) []byte {
		if hevc {
			return append([]byte{t265 << 1, 1}, body...)
		}
		return append([]byte{0x60 | t264}, body...)
	}
	agg := func(nals ...[]byte) []byte {
		var b []byte
		if hevc {
			b = []byte{48 << 1, 1}
		} else {
			b = []byte{0x78}
		}
		for _, n := range nals {
			b = append(b, byte(len(n)>>8), byte(len(n)))
			b = append(b, n...)
		}
		return b
	}
	fu := func(t264, t265 byte, start bool) []byte {
		s := byte(0)
		if start {
			s = 0x80
		}
		if hevc {
			return append([]byte{49 << 1, 1, s | t265}, body...)
		}
		return append([]byte{0x7c, s | t264}, body...)
	}
	switch k {
	case KNonKey:
		pl = nal(1, 1)
	case KKey:
		pl = nal(5, keyT)
	case KSps:
		pl = nal(7, 33)
	case KPps:
		pl = nal(8, 34)
	case KVps:
		pl = nal(6, 32)
	case KStapPS:
		pl = agg(nal(7, 33), nal(8, 34))
	case KFuKeyS:
		pl = fu(5, keyT, true)
	case KFuKeyM:
		pl = fu(5, keyT, false)
	case KFuNonS:
		pl = fu(1, 1, true)
	case KStapKey:
		pl = agg(nal(6, 39), nal(5, keyT))
	case KAudio:
		ch = rtp.ChannelAudio
		n := len(body)
		pl = append([]byte{0, 16, byte(n >> 5), byte(n << 3)}, body...)
	case KRtcpV, KRtcpA:
		ch = rtp.ChannelVideoControl
		if k == KRtcpA {
			ch = rtp.ChannelAudioControl
		}
		d := make([]byte, 28)
		d[0], d[1], d[3] = 0x80, 200, 6
		d = append(d, u...)
		return &rtp.Packet{Channel: ch, Data: d}
	}
	hdr := make([]byte, 12)
	hdr[0] = 0x80
	hdr[1] = 96
	binary.BigEndian.PutUint16(hdr[2:], uint16(uid))
	binary.BigEndian.PutUint32(hdr[4:], uid*3000)
	binary.BigEndian.PutUint32(hdr[8:], 0x1234)
	p := &rtp.Packet{Channel: ch, Data: append(hdr, pl...)}
	if err := p.Header.Unmarshal(p.Data); err != nil {
		panic(err)
	}
	return p
}

// RawSpec describes a well-formed packet with arbitrary NAL types (classifier coverage)
type RawSpec struct {
	Mode  int    // 0 single NAL, 1 aggregation, 2 fragmentation unit
	Types []byte // NAL types (one for single / FU, one per aggregated NAL)
	Start bool   // FU start bit
	Extra int
}

// MkRaw builds the packet of a RawSpec (video channel); the uid is in the last four bytes
func MkRaw(uid uint32, sp RawSpec, hevc bool) *rtp.Packet {
	u := make([]byte, 4)
	binary.BigEndian.PutUint32(u, uid)
	fill := make([]byte, sp.Extra)
	for i := range fill {
		fill[i] = byte(uid)*3 + byte(i)
	}
	body := append(append([]byte{}, fill...), u...)
	nal := func(t byte, b []byte) []byte {
		if hevc {
			return append([]byte{t << 1, 1}, b...)
		}
		return append([]byte{0x40 | t}, b...)
	}
	var pl []byte
	switch sp.Mode {
	case 0:
		pl = nal(sp.Types[0], body)
	case 1:
		if hevc {
			pl = []byte{48 << 1, 1}
		} else {
			pl = []byte{0x58}
		}
		for i, t := range sp.Types {
			b := []byte{byte(i), 9}
			if i == len(sp.Types)-1 {
				b = body
			}
			n := nal(t, b)
			pl = append(pl, byte(len(n)>>8), byte(len(n)))
			pl = append(pl, n...)
		}
	default:
		s := byte(0)
		if sp.Start {
			s = 0x80
		}
		if hevc {
			pl = append([]byte{49 << 1, 1, s | sp.Types[0]}, body...)
		} else {
			pl = append([]byte{0x5c, s | sp.Types[0]}, body...)
		}
	}
	hdr := make([]byte, 12)
	hdr[0] = 0x80
	hdr[1] = 96
	binary.BigEndian.PutUint16(hdr[2:], uint16(uid))
	binary.BigEndian.PutUint32(hdr[4:], uid*3000)
	binary.BigEndian.PutUint32(hdr[8:], 0x1234)
	p := &rtp.Packet{Channel: rtp.ChannelVideo, Data: append(hdr, pl...)}
	if err := p.Header.Unmarshal(p.Data); err != nil {
		panic(err)
	}
	return p
}

// UID recovers the uid of a generated packet
// TsOf: the RTP timestamp of a media packet (0 for RTCP, which has none in this position)
func TsOf(p *rtp.Packet) uint32 {
	if p.Channel == rtp.ChannelVideo || p.Channel == rtp.ChannelAudio {
		return binary.BigEndian.Uint32(p.Data[4:8])
	}
	return 0
}

// Stamp gives a media packet the timestamp `last` when same is set (and re-parses its header);
// returns the timestamp the packet now carries (RTCP packets pass `last` through)
func Stamp(p *rtp.Packet, same bool, last uint32) uint32 {
	if p.Channel != rtp.ChannelVideo && p.Channel != rtp.ChannelAudio {
		return last
	}
	if same {
		binary.BigEndian.PutUint32(p.Data[4:8], last)
		if err := p.Header.Unmarshal(p.Data); err != nil {
			panic(err)
		}
	}
	return TsOf(p)
}

func UID(p *rtp.Packet) uint32 { return binary.BigEndian.Uint32(p.Data[len(p.Data)-4:]) }

// ---- recording consumer ----

type Rec struct {
	Name       int
	mu         sync.Mutex
	delivered  []uint32
	corrupt    int // deliveries whose object or bytes differ from what was published
	closeCalls int32
	stalled    int32
	gate       chan struct{}
	PanicAt    int // panic when about to record the n-th packet (1-based); 0 = never
	world      *World
	CID        media.CID
	Flv        bool
	// CloseMode: what Consumer.Close does after counting the call: "" returns, "panic" panics,
	// "block" blocks until CloseGate is closed (a transport whose close misbehaves)
	CloseMode string
	CloseGate chan struct{}
	closeIn   chan struct{} // closed when Close was entered for the first time
	closeOnce sync.Once
	stopped   bool // stress runs: the script stopped this consumer itself
	blocked   int32
	// SelfStopAt: when about to record the n-th packet (1-based) the consumer stops its own consumption instead
	SelfStopAt int
}

// Blocked: the delivery goroutine sits inside Consume (the consumer is stalled)
func (r *Rec) Blocked() bool { return atomic.LoadInt32(&r.blocked) == 1 }

func (r *Rec) Consume(p media.Pack) {
	for atomic.LoadInt32(&r.stalled) == 1 {
		atomic.StoreInt32(&r.blocked, 1)
		<-r.gate
	}
	atomic.StoreInt32(&r.blocked, 0)
	r.mu.Lock()
	n := len(r.delivered) + 1
	r.mu.Unlock()
	if r.SelfStopAt != 0 && n == r.SelfStopAt {
		// what a transport does on a write error: it closes itself, which stops the consumption
		r.world.S.StopConsume(r.CID)
		return
	}
	if r.PanicAt != 0 && n == r.PanicAt {
		panic("verif: consumer panic on request")
	}
	pk, ok := p.(*rtp.Packet)
	if !ok {
		r.mu.Lock()
		r.corrupt++
		r.mu.Unlock()
		return
	}
	uid := UID(pk)
	good := r.world.sameAsPublished(uid, pk)
	r.mu.Lock()
	r.delivered = append(r.delivered, uid)
	if !good {
		r.corrupt++
	}
	r.mu.Unlock()
}

func (r *Rec) Close() error {
	atomic.AddInt32(&r.closeCalls, 1)
	r.closeOnce.Do(func() {
		if r.closeIn != nil {
			close(r.closeIn)
		}
	})
	switch r.CloseMode {
	case "panic":
		panic("verif: consumer Close panics on request")
	case "block":
		<-r.CloseGate
	}
	return nil
}
func (r *Rec) Stall() { atomic.StoreInt32(&r.stalled, 1) }
func (r *Rec) Resume() {
	atomic.StoreInt32(&r.stalled, 0)
	select {
	case r.gate <- struct{}{}:
	default:
	}
}
func (r *Rec) Delivered() []uint32 {
	r.mu.Lock()
	defer r.mu.Unlock()
	return append([]uint32{}, r.delivered...)
}
func (r *Rec) Corrupt() int    { r.mu.Lock(); defer r.mu.Unlock(); return r.corrupt }
func (r *Rec) CloseCalls() int { return int(atomic.LoadInt32(&r.closeCalls)) }

// ---- world: one stream, its publisher log, its consumers ----

type World struct {
	S      *media.Stream
	Hevc   bool
	mu     sync.Mutex
	pubs   map[uint32]*rtp.Packet
	sums   map[uint32]uint64
	Order  []uint32
	Recs   []*Rec
	nextID uint32
	lastTs uint32
}

// stamp: see Stamp; tracks the last timestamp of this world (call inside PublishWith's mk)
func (w *World) stamp(p *rtp.Packet, same bool) *rtp.Packet {
	w.lastTs = Stamp(p, same, w.lastTs)
	return p
}

func NewWorld(hevc, cacheGop bool) *World { return NewWorldSdp(hevc, cacheGop, false) }

// NewWorldSdp: noSprop selects, for H.264, an SDP without sprop-parameter-sets (the H.265 SDP never has them)
func NewWorldSdp(hevc, cacheGop, noSprop bool) *World {
	config.VerifSetCacheGop(cacheGop)
	sdp := SdpH264
	if noSprop {
		sdp = SdpH264NoSprop
	}
	if hevc {
		sdp = SdpH265
	}
	w := &World{Hevc: hevc, pubs: map[uint32]*rtp.Packet{}, sums: map[uint32]uint64{}}
	w.S = media.NewStream("/verif/media", sdp)
	return w
}

func fnv(b []byte) uint64 {
	h := uint64(1469598103934665603)
	for _, c := range b {
		h ^= uint64(c)
		h *= 1099511628211
	}
	return h
}

func (w *World) sameAsPublished(uid uint32, p *rtp.Packet) bool {
	w.mu.Lock()
	defer w.mu.Unlock()
	q, ok := w.pubs[uid]
	return ok && q == p && w.sums[uid] == fnv(p.Data)
}

// Publish builds and writes one packet; returns its uid and the error of WriteRtpPacket
func (w *World) Publish(k Kind, extra int) (uint32, *rtp.Packet, error) {
	return w.PublishWith(func(uid uint32) *rtp.Packet { return MkPkt(uid, k, w.Hevc, extra) })
}

// PublishWith publishes the packet built by mk for the next uid
func (w *World) PublishWith(mk func(uid uint32) *rtp.Packet) (uint32, *rtp.Packet, error) {
	w.mu.Lock()
	w.nextID++
	uid := w.nextID
	p := mk(uid)
	w.pubs[uid] = p
	w.sums[uid] = fnv(p.Data)
	w.Order = append(w.Order, uid)
	w.mu.Unlock()
	err := w.S.WriteRtpPacket(p)
	return uid, p, err
}

func (w *World) NewRec() *Rec {
	r := &Rec{Name: len(w.Recs), gate: make(chan struct{}, 1), world: w}
	w.Recs = append(w.Recs, r)
	return r
}

func (w *World) Join(r *Rec, useGop bool) {
	if useGop {
		r.CID = w.S.StartConsume(r, media.RTPPacket, "verif")
	} else {
		r.CID = w.S.StartConsumeNoGopCache(r, media.RTPPacket, "verif")
	}
}

// Quiesce waits until every non-stalled registered consumer has drained its queue and every
// stalled one holds exactly one packet in flight (or has an empty queue); generous timeout.
func (w *World) Quiesce() bool { return w.Quiesce2(60 * time.Second) }

// Quiesce2: Quiesce with an explicit budget
func (w *World) Quiesce2(budget time.Duration) bool {
	deadline := time.Now().Add(budget)
	stable := 0
	var last string
	for time.Now().Before(deadline) {
		cur := w.Observe()
		busy := false
		rtpT, _, _, _ := w.S.VerifTables()
		for _, c := range rtpT {
			r := w.recByCID(c.CID)
			if r == nil {
				continue
			}
			if atomic.LoadInt32(&r.stalled) == 0 && c.QueueLen > 0 {
				busy = true
			}
		}
		if !busy && cur == last {
			stable++
			if stable >= 3 {
				return true
			}
		} else {
			stable = 0
		}
		last = cur
		runtime.Gosched()
		time.Sleep(200 * time.Microsecond)
	}
	return false
}

func (w *World) recByCID(cid media.CID) *Rec {
	for _, r := range w.Recs {
		if r.CID == cid && cid != 0 {
			return r
		}
	}
	return nil
}

// Observe renders the canonical observation compared with the model:
// status, counters, and per consumer: registered, queue length, discarding, closed flag,
// delivered uids, close calls, corrupt deliveries.
func (w *World) Observe() string {
	rtpT, _, rc, fc := w.S.VerifTables()
	reg := map[media.CID]media.VerifConsumption{}
	for _, c := range rtpT {
		reg[c.CID] = c
	}
	var b strings.Builder
	fmt.Fprintf(&b, "st=%d n=%d cnt=%d fcnt=%d cc=%d", w.S.VerifStatus(), len(rtpT), rc, fc, w.S.ConsumerCount())
	for _, r := range w.Recs {
		d := r.Delivered()
		c, isReg := reg[r.CID]
		if r.CID == 0 {
			isReg = false
		}
		fmt.Fprintf(&b, " |c%d reg=%s q=%d dis=%s cl=%d bad=%d d=", r.Name, b01(isReg), c.QueueLen, b01(c.Discarding), r.CloseCalls(), r.Corrupt())
		if len(d) == 0 {
			b.WriteByte('-')
		} else if len(d) <= 48 {
			for i, u := range d {
				if i > 0 {
					b.WriteByte(',')
				}
				fmt.Fprintf(&b, "%d", u)
			}
		} else {
			h := uint64(7)
			for _, u := range d {
				h = (h*31 + uint64(u)) % 4294967296
			}
			fmt.Fprintf(&b, "n%dh%d", len(d), h)
		}
	}
	return b.String()
}

func b01(v bool) string {
	if v {
		return "1"
	}
	return "0"
}

// ---- gates on the verif schedule points ----

type Gates struct {
	mu    sync.Mutex
	armed map[string]*gate
	hits  map[string]int
}
type gate struct {
	id      uint32 // 0 = any
	reached chan struct{}
	release chan struct{}
	once    sync.Once
}

// demuxPops counts the passes of every stream's own RTP demuxer through its queue pop (schedule
// point rtpdemuxer.beforePop): scripts use it to let the stream's remuxing side catch up with the
// publisher before a stalled consumer is resumed (what the remuxers do to a packet matters to C01)
var demuxPops int64

func countPoint(point string) {
	if point == "rtpdemuxer.beforePop" {
		atomic.AddInt64(&demuxPops, 1)
	}
}

// InstallCounters installs the counting handler alone (script runs; InstallGates replaces it)
func InstallCounters() { verifhook.Set(func(point string, id uint32) { countPoint(point) }) }

func InstallGates() *Gates {
	g := &Gates{armed: map[string]*gate{}, hits: map[string]int{}}
	verifhook.Set(func(point string, id uint32) {
		countPoint(point)
		g.mu.Lock()
		g.hits[point]++
		gt := g.armed[point]
		if gt != nil && (gt.id == 0 || gt.id == id) {
			delete(g.armed, point)
		} else {
			gt = nil
		}
		g.mu.Unlock()
		if gt != nil {
			close(gt.reached)
			<-gt.release
		}
	})
	return g
}

func (g *Gates) Uninstall() { InstallCounters() }

// Arm parks the next goroutine reaching point (with this id, 0 = any) until Release.
func (g *Gates) Arm(point string, id uint32) *gate {
	gt := &gate{id: id, reached: make(chan struct{}), release: make(chan struct{})}
	g.mu.Lock()
	g.armed[point] = gt
	g.mu.Unlock()
	return gt
}

func (g *Gates) Disarm(point string) {
	g.mu.Lock()
	delete(g.armed, point)
	g.mu.Unlock()
}

func (g *Gates) Hits(point string) int { g.mu.Lock(); defer g.mu.Unlock(); return g.hits[point] }

// WaitReached waits until a goroutine is parked at the gate
func (gt *gate) WaitReached(d time.Duration) bool {
	select {
	case <-gt.reached:
		return true
	case <-time.After(d):
		return false
	}
}
func (gt *gate) Release() { gt.once.Do(func() { close(gt.release) }) }

// Eventually polls cond with a generous timeout
func Eventually(d time.Duration, cond func() bool) bool {
	deadline := time.Now().Add(d)
	for time.Now().Before(deadline) {
		if cond() {
			return true
		}
		time.Sleep(500 * time.Microsecond)
	}
	return cond()
}

func init() {
	// silence ipchub's logging (it would flood the harness output)
	xlog.ReplaceGlobal(xlog.New(xlog.NewNopCore()))
}
