package medialib

import (
	"encoding/binary"
	"fmt"
	"strings"
	"sync"
	"sync/atomic"

	"github.com/cnotch/ipchub/av/format/flv"
	"github.com/cnotch/ipchub/config"
	"github.com/cnotch/ipchub/media"
	"verifharness/hlib"
)

// FLV scripts: tags are written straight into a real stream with Stream.WriteFlvTag (the entry
// point the stream's own FLV muxer uses), FLV consumers attach with StartConsume(FLVPacket).

type FlvKind int

const (
	FMeta FlvKind = iota
	FVSeq
	FASeq
	FKey
	FInter
	FAudio
	FScriptOther // a script tag that is not onMetaData
	FKeyHevc
	FlvKindCount
)

var FlvKindNames = []string{"meta", "vseq", "aseq", "key", "inter", "audio", "script-other", "key-hevc"}

func amfStr(s string) []byte {
	b := []byte{2, byte(len(s) >> 8), byte(len(s))}
	return append(b, s...)
}

// MkTag builds a tag whose last four data bytes are the uid
func MkTag(uid uint32, k FlvKind, ts uint32) *flv.Tag {
	u := make([]byte, 4)
	binary.BigEndian.PutUint32(u, uid)
	t := &flv.Tag{Timestamp: ts}
	switch k {
	case FMeta:
		t.TagType = flv.TagTypeAmf0Data
		t.Data = append(amfStr("onMetaData"), 8, 0, 0, 0, 0)
	case FScriptOther:
		t.TagType = flv.TagTypeAmf0Data
		t.Data = append(amfStr("onCuePoint"), 5)
	case FVSeq:
		t.TagType = flv.TagTypeVideo
		t.Data = []byte{0x17, 0, 0, 0, 0, 1, 100}
	case FKey:
		t.TagType = flv.TagTypeVideo
		t.Data = []byte{0x17, 1, 0, 0, 0, 0, 0, 0, 5, 0x65}
	case FKeyHevc:
		t.TagType = flv.TagTypeVideo
		t.Data = []byte{0x1c, 1, 0, 0, 0, 0, 0, 0, 5, 0x26}
	case FInter:
		t.TagType = flv.TagTypeVideo
		t.Data = []byte{0x27, 1, 0, 0, 0, 0, 0, 0, 5, 0x41}
	case FASeq:
		t.TagType = flv.TagTypeAudio
		t.Data = []byte{0xaf, 0, 0x12, 0x10}
	case FAudio:
		t.TagType = flv.TagTypeAudio
		t.Data = []byte{0xaf, 1, 0x21}
	}
	t.Data = append(t.Data, u...)
	t.DataSize = uint32(len(t.Data))
	return t
}

// FRec records (uid, timestamp as seen at delivery, bytes intact?)
type FRec struct {
	Name    int
	mu      sync.Mutex
	got     []string
	stalled int32
	gate    chan struct{}
	closes  int32
	CID     media.CID
	world   *FlvWorld
}

func (r *FRec) Consume(p media.Pack) {
	for atomic.LoadInt32(&r.stalled) == 1 {
		<-r.gate
	}
	t, ok := p.(*flv.Tag)
	if !ok {
		r.mu.Lock()
		r.got = append(r.got, "notatag")
		r.mu.Unlock()
		return
	}
	uid := binary.BigEndian.Uint32(t.Data[len(t.Data)-4:])
	s := fmt.Sprintf("%d@%d", uid, t.Timestamp)
	if !r.world.dataIntact(uid, t) {
		s += "!"
	}
	r.mu.Lock()
	r.got = append(r.got, s)
	r.mu.Unlock()
}
func (r *FRec) Close() error { atomic.AddInt32(&r.closes, 1); return nil }
func (r *FRec) Stall()       { atomic.StoreInt32(&r.stalled, 1) }
func (r *FRec) Resume() {
	atomic.StoreInt32(&r.stalled, 0)
	select {
	case r.gate <- struct{}{}:
	default:
	}
}
func (r *FRec) Got() string {
	r.mu.Lock()
	defer r.mu.Unlock()
	if len(r.got) == 0 {
		return "-"
	}
	return strings.Join(r.got, ",")
}

type FlvWorld struct {
	S    *media.Stream
	mu   sync.Mutex
	sums map[uint32]uint64
	typ  map[uint32]byte
	next uint32
}

func NewFlvWorld(cacheGop bool) *FlvWorld {
	config.VerifSetCacheGop(cacheGop)
	return &FlvWorld{S: media.NewStream("/verif/flv", SdpH264), sums: map[uint32]uint64{}, typ: map[uint32]byte{}}
}

func (w *FlvWorld) dataIntact(uid uint32, t *flv.Tag) bool {
	w.mu.Lock()
	defer w.mu.Unlock()
	return w.sums[uid] == fnv(t.Data) && w.typ[uid] == t.TagType
}

func (w *FlvWorld) Write(k FlvKind, ts uint32) *flv.Tag {
	w.mu.Lock()
	w.next++
	t := MkTag(w.next, k, ts)
	w.sums[w.next] = fnv(t.Data)
	w.typ[w.next] = t.TagType
	w.mu.Unlock()
	w.S.WriteFlvTag(t)
	return t
}

// FlvOp: F write tag, J join, T stall, R resume
type FlvOp struct {
	Code byte
	Kind FlvKind
	Ts   uint32
	Name int
}

type FlvScript struct {
	Gop bool
	Ops []FlvOp
}

func (sc FlvScript) Line(tag string) string {
	var b strings.Builder
	fmt.Fprintf(&b, "%s flv %s", tag, b01(sc.Gop))
	uid := uint32(0)
	for _, o := range sc.Ops {
		switch o.Code {
		case 'F':
			uid++
			t := MkTag(uid, o.Kind, o.Ts)
			fmt.Fprintf(&b, " F:%d:%d:%s", t.TagType, t.Timestamp, hlib.Hx(t.Data))
		case 'J':
			fmt.Fprintf(&b, " J:%d", o.Name)
		}
	}
	return b.String()
}

// RunImpl runs the script; stalls delay deliveries but must not change them. Returns the final
// "c<name>=uid@ts,..." observation in join order once it equals `want` (or after a timeout).
func (sc FlvScript) RunImpl(want string) string {
	w := NewFlvWorld(sc.Gop)
	var order []*FRec
	recs := map[int]*FRec{}
	for _, o := range sc.Ops {
		switch o.Code {
		case 'F':
			w.Write(o.Kind, o.Ts)
		case 'J':
			r := &FRec{Name: o.Name, gate: make(chan struct{}, 1), world: w}
			recs[o.Name] = r
			order = append(order, r)
			r.CID = w.S.StartConsume(r, media.FLVPacket, "verif-flv")
		case 'T':
			if r := recs[o.Name]; r != nil {
				r.Stall()
			}
		case 'R':
			if r := recs[o.Name]; r != nil {
				r.Resume()
			}
		}
	}
	for _, r := range order {
		r.Resume()
	}
	obs := func() string {
		var parts []string
		for _, r := range order {
			parts = append(parts, fmt.Sprintf("c%d=%s", r.Name, r.Got()))
		}
		return strings.Join(parts, " ")
	}
	got := ""
	Eventually(opBudgetNow(), func() bool { got = obs(); return got == want })
	w.S.Close()
	return got
}

func GenFlvScript(r *hlib.Rng) FlvScript {
	sc := FlvScript{Gop: !r.Chance(30)}
	n := 4 + r.Intn(30)
	ts := uint32(r.Intn(3) * 1000)
	names := 0
	stalled := map[int]bool{}
	for i := 0; i < n; i++ {
		x := r.Intn(100)
		switch {
		case x < 8:
			sc.Ops = append(sc.Ops, FlvOp{Code: 'F', Kind: FMeta, Ts: ts})
		case x < 16:
			sc.Ops = append(sc.Ops, FlvOp{Code: 'F', Kind: FVSeq, Ts: ts})
		case x < 22:
			sc.Ops = append(sc.Ops, FlvOp{Code: 'F', Kind: FASeq, Ts: ts})
		case x < 34:
			ts += uint32(r.Intn(900))
			k := FKey
			if r.Chance(25) {
				k = FKeyHevc
			}
			sc.Ops = append(sc.Ops, FlvOp{Code: 'F', Kind: k, Ts: ts})
		case x < 55:
			ts += uint32(r.Intn(50))
			sc.Ops = append(sc.Ops, FlvOp{Code: 'F', Kind: FInter, Ts: ts})
		case x < 65:
			sc.Ops = append(sc.Ops, FlvOp{Code: 'F', Kind: FAudio, Ts: ts + uint32(r.Intn(20))})
		case x < 68:
			sc.Ops = append(sc.Ops, FlvOp{Code: 'F', Kind: FScriptOther, Ts: ts})
		case x < 84:
			sc.Ops = append(sc.Ops, FlvOp{Code: 'J', Name: names})
			names++
		case x < 93 && names > 0:
			k := r.Intn(names)
			if stalled[k] {
				sc.Ops = append(sc.Ops, FlvOp{Code: 'R', Name: k})
			} else {
				sc.Ops = append(sc.Ops, FlvOp{Code: 'T', Name: k})
			}
			stalled[k] = !stalled[k]
		default:
			ts += uint32(r.Intn(50))
			sc.Ops = append(sc.Ops, FlvOp{Code: 'F', Kind: FInter, Ts: ts})
		}
	}
	return sc
}

// RunFlvScripts: implementation vs model for FLV scripts
func RunFlvScripts(c *hlib.Ctx, tag string, scripts []FlvScript) {
	lines := make([]string, len(scripts))
	for i, sc := range scripts {
		lines[i] = sc.Line(tag)
	}
	outs := c.Drive(lines)
	for i, sc := range scripts {
		if atomic.LoadInt64(&confirmedFailures) >= maxFindingsPerRun {
			c.Count("flv-script-not-run-after-findings")
			continue
		}
		got := sc.RunImpl(outs[i])
		if got != outs[i] {
			// never matched within the budget: once more on a fresh stream before it is reported
			c.Count("flv-script-rerun")
			got = sc.RunImpl(outs[i])
			if got != outs[i] {
				atomic.AddInt64(&confirmedFailures, 1)
			}
		}
		nj := 0
		for _, o := range sc.Ops {
			switch o.Code {
			case 'F':
				c.Count("flv-tag-" + FlvKindNames[o.Kind])
			case 'J':
				nj++
				c.Count("flv-join")
			case 'T':
				c.Count("flv-stall")
			}
		}
		c.Count("flv-script")
		c.Eval(lines[i], nj > 0)
		if i%(len(scripts)/3+1) == 0 {
			c.Sample("flv " + trunc(lines[i], 200) + " => " + trunc(outs[i], 200))
		}
		if got != outs[i] {
			class := "flv-delivery-differs"
			if strings.Contains(got, "!") {
				class = "flv-payload-not-identical"
			}
			c.Find(hlib.Finding{Kind: "oracle", Class: class, Case: lines[i], Impl: trunc(got, 600), Model: trunc(outs[i], 600), Spec: trunc(outs[i], 600),
				Detail: "FLV consumers: replayed headers (re-stamped copies) ++ GOP ++ live tags, each tag as published"})
		}
	}
}
