// Package sesslib drives REAL ipchub sessions in-process for the C12 / C13 harnesses:
// rtsp.CreateAcceptHandler() on net.Pipe (RTSP over TCP), the same handler behind
// websocket.TryUpgrade on a loopback httptest server (ws-rtsp) and wsp.CreateAcceptHandler()
// (WSP control + data channel).  The client side is a scripted peer with a reader goroutine
// that turns what the server sends into items (responses, interleaved frames, anomalies).
package sesslib

import (
	"bufio"
	"bytes"
	"fmt"
	"io"
	"net"
	"net/http"
	"net/http/httptest"
	"net/url"
	"runtime"
	"strconv"
	"strings"
	"sync"
	"sync/atomic"
	"time"

	"github.com/cnotch/ipchub/config"
	"github.com/cnotch/ipchub/media"
	"github.com/cnotch/ipchub/network/socket/buffered"
	"github.com/cnotch/ipchub/network/websocket"
	"github.com/cnotch/ipchub/service/rtsp"
	"github.com/cnotch/ipchub/service/wsp"
	"github.com/cnotch/ipchub/utils"
	"github.com/cnotch/xlog"
	gws "github.com/gorilla/websocket"
	"github.com/pixelbender/go-sdp/sdp"
)

// Generous watchdog: only ever hit when the server neither answers nor closes.  It costs nothing
// when the awaited event arrives; a busy machine must not turn into a finding.
var Watchdog = 45 * time.Second

const (
	KResp = iota
	KFrame
	KAnomaly // bytes that are neither a complete response nor a complete frame
	KEOF
)

// Item is one thing received from the server.
type Item struct {
	Kind    int
	Code    int
	Text    string            // status text
	Header  map[string]string // canonical keys as sent
	Body    string
	Chan    int
	Payload []byte
	What    string // anomaly description
	Raw     []byte
	Data    bool // WSP: received on the data channel
	WspOK   bool // WSP: envelope `WSP/1.1 200 OK`, seq echoed, channel id present
}

// Conn is a scripted client of one real session.
type Conn struct {
	Flavour string // tcp | ws | wsp
	items   chan Item
	send    func(string) error
	closeFn func()
	mu      sync.Mutex
	rawLog  []byte   // tcp: every byte received, in order
	msgLog  [][]byte // ws / wsp data: every message received
	wspSeq  int
	WspChan string
	// PauseRead, when set, is called by the tcp reader before every socket read with the
	// number of bytes received so far; it may block (C13 uses it to stall mid-frame).
	PauseRead func(total int)
	// serverWrite (tcp), when set, is called on the SERVER side before every write of the session
	// to its socket, with the bytes about to be written; it may block: a schedule point inside
	// buffered.Conn.Write / Flush (the goroutine that writes is parked with whatever locks it holds).
	serverWrite atomic.Value // func(p []byte)
	sendSync    func(string) error
}

// SetServerWrite installs (nil: removes) the server-side socket-write schedule point.
func (c *Conn) SetServerWrite(f func(p []byte)) {
	if f == nil {
		f = func([]byte) {}
	}
	c.serverWrite.Store(f)
}

func Silence() { xlog.ReplaceGlobal(xlog.New(xlog.NewNopCore())) }

var (
	accOnce    sync.Once
	rtspAccept func(net.Conn)
	wspAccept  func(net.Conn)
	wsOnce     sync.Once
	wsURL      string
)

// handlers are created on first use, after Silence() (they capture the global logger)
func acceptors() {
	accOnce.Do(func() {
		rtspAccept = rtsp.CreateAcceptHandler()
		wspAccept = wsp.CreateAcceptHandler()
	})
}

// pipeConn gives the server side of a net.Pipe a TCP-looking peer address
// (asUDPConsumer cuts the port off RemoteAddr().String()).
type pipeConn struct {
	net.Conn
	c *Conn
}

func (pipeConn) RemoteAddr() net.Addr { return &net.TCPAddr{IP: net.IPv4(127, 0, 0, 1), Port: 50554} }

func (p pipeConn) Write(b []byte) (int, error) {
	if p.c != nil {
		if f, ok := p.c.serverWrite.Load().(func([]byte)); ok {
			f(b)
		}
	}
	return p.Conn.Write(b)
}

func wsServer() string {
	acceptors()
	wsOnce.Do(func() {
		srv := httptest.NewServer(http.HandlerFunc(func(w http.ResponseWriter, r *http.Request) {
			p := strings.TrimPrefix(r.URL.Path, "/ws")
			c, ok := websocket.TryUpgrade(w, r, p, "")
			if !ok {
				return
			}
			switch c.Subprotocol() {
			case "rtsp":
				rtspAccept(c)
			default:
				wspAccept(c)
			}
		}))
		wsURL = "ws" + strings.TrimPrefix(srv.URL, "http") + "/ws"
	})
	return wsURL
}

// ---- parsing what the server sends ----

// parseResponse reads one RTSP response from r (blocking); raw gets the bytes consumed.
func parseResponse(r *bufio.Reader) (it Item, err error) {
	var raw bytes.Buffer
	line, err := r.ReadString('\n')
	raw.WriteString(line)
	if err != nil {
		return Item{Kind: KAnomaly, What: "truncated status line", Raw: raw.Bytes()}, err
	}
	it.Kind = KResp
	it.Header = map[string]string{}
	sl := strings.TrimRight(line, "\r\n")
	if !strings.HasPrefix(sl, "RTSP/1.0 ") || len(sl) < 12 || !strings.HasSuffix(line, "\r\n") {
		return Item{Kind: KAnomaly, What: "bad status line " + strconv.Quote(sl), Raw: raw.Bytes()}, nil
	}
	code, e2 := strconv.Atoi(sl[9:12])
	if e2 != nil {
		return Item{Kind: KAnomaly, What: "bad status code " + strconv.Quote(sl), Raw: raw.Bytes()}, nil
	}
	it.Code = code
	if len(sl) > 13 {
		it.Text = sl[13:]
	}
	for {
		line, err = r.ReadString('\n')
		raw.WriteString(line)
		if err != nil {
			return Item{Kind: KAnomaly, What: "truncated header", Raw: raw.Bytes()}, err
		}
		if line == "\r\n" {
			break
		}
		i := strings.Index(line, ":")
		if i < 0 || !strings.HasSuffix(line, "\r\n") {
			return Item{Kind: KAnomaly, What: "bad header line " + strconv.Quote(line), Raw: raw.Bytes()}, nil
		}
		it.Header[line[:i]] = strings.TrimSpace(line[i+1:])
	}
	if cl, ok := it.Header["Content-Length"]; ok {
		n, e3 := strconv.Atoi(cl)
		if e3 != nil || n < 0 {
			return Item{Kind: KAnomaly, What: "bad content-length", Raw: raw.Bytes()}, nil
		}
		body := make([]byte, n)
		if _, err = io.ReadFull(r, body); err != nil {
			raw.Write(body)
			return Item{Kind: KAnomaly, What: "truncated body", Raw: raw.Bytes()}, err
		}
		raw.Write(body)
		it.Body = string(body)
	}
	it.Raw = raw.Bytes()
	return it, nil
}

func parseFrame(r *bufio.Reader) (Item, error) {
	var h [4]byte
	if _, err := io.ReadFull(r, h[:]); err != nil {
		return Item{Kind: KAnomaly, What: "truncated frame prefix", Raw: h[:]}, err
	}
	n := int(h[2])<<8 | int(h[3])
	p := make([]byte, n)
	if _, err := io.ReadFull(r, p); err != nil {
		return Item{Kind: KAnomaly, What: "truncated frame body", Raw: append(h[:], p...)}, err
	}
	return Item{Kind: KFrame, Chan: int(h[1]), Payload: p, Raw: append(h[:], p...)}, nil
}

// parseOne parses the next server→client unit of a byte stream
func parseOne(r *bufio.Reader) (Item, error) {
	b, err := r.Peek(1)
	if err != nil {
		return Item{Kind: KEOF}, err
	}
	if b[0] == '$' {
		return parseFrame(r)
	}
	return parseResponse(r)
}

// parseMessage: a WebSocket message must be exactly one unit
func parseMessage(msg []byte) Item {
	if len(msg) == 0 {
		return Item{Kind: KAnomaly, What: "empty message", Raw: msg}
	}
	r := bufio.NewReader(bytes.NewReader(msg))
	it, err := parseOne(r)
	if err != nil && it.Kind != KAnomaly {
		return Item{Kind: KAnomaly, What: "unparsable message", Raw: msg}
	}
	if it.Kind == KAnomaly {
		it.Raw = msg
		return it
	}
	if r.Buffered() > 0 {
		if _, e := r.Peek(1); e == nil {
			return Item{Kind: KAnomaly, What: "more than one unit in a message", Raw: msg}
		}
	}
	return it
}

type teeReader struct {
	c *Conn
	r io.Reader
}

func (t *teeReader) Read(p []byte) (int, error) {
	if t.c.PauseRead != nil {
		t.c.mu.Lock()
		n := len(t.c.rawLog)
		t.c.mu.Unlock()
		t.c.PauseRead(n)
	}
	n, err := t.r.Read(p)
	if n > 0 {
		t.c.mu.Lock()
		t.c.rawLog = append(t.c.rawLog, p[:n]...)
		t.c.mu.Unlock()
	}
	return n, err
}

// ---- dialling ----

// DialTCP starts a real RTSP session on a net.Pipe.  readChunk > 0 limits the size of the
// client's socket reads (so that a stall can fall inside a frame).
func DialTCP(readChunk int) *Conn {
	c, _ := dialTCP(readChunk, false)
	return c
}

// DialTCPBuffered is DialTCP, but the connection handed to the accept handler is already a
// *buffered.Conn (newSession's buffered.NewConn then configures and uses that very object instead of
// wrapping the socket itself): the caller holds the session's write queue and rate limiter
// (buffered.VerifUseUpTokens / VerifGrantToken, Buffered()).
func DialTCPBuffered(readChunk int) (*Conn, *buffered.Conn) { return dialTCP(readChunk, true) }

func dialTCP(readChunk int, wrap bool) (*Conn, *buffered.Conn) {
	cli, srv := net.Pipe()
	c := &Conn{Flavour: "tcp", items: make(chan Item, 4096)}
	// net.Pipe is unbuffered: a write blocks until the server reads.  A real socket buffers, so
	// requests are queued and written by a sender goroutine (order kept).
	type sendItem struct {
		s    string
		done chan error
	}
	sendQ := make(chan sendItem, 1024)
	var sendErr atomic.Value
	go func() {
		for it := range sendQ {
			cli.SetWriteDeadline(time.Now().Add(Watchdog))
			_, err := cli.Write([]byte(it.s))
			if err != nil {
				sendErr.Store(err)
			}
			if it.done != nil {
				it.done <- err
			}
		}
	}()
	var closeMu sync.Mutex
	closedQ := false
	enqueue := func(it sendItem) error {
		if e, ok := sendErr.Load().(error); ok {
			return e
		}
		closeMu.Lock()
		defer closeMu.Unlock()
		if closedQ {
			return fmt.Errorf("connection closed by the client")
		}
		select {
		case sendQ <- it:
			return nil
		default:
			return fmt.Errorf("send queue full")
		}
	}
	c.send = func(s string) error { return enqueue(sendItem{s: s}) }
	// net.Pipe is synchronous: the write returns when the server has READ the whole request
	c.sendSync = func(s string) error {
		done := make(chan error, 1)
		if err := enqueue(sendItem{s, done}); err != nil {
			return err
		}
		select {
		case err := <-done:
			return err
		case <-time.After(Watchdog + time.Second):
			return fmt.Errorf("request not read by the server")
		}
	}
	c.closeFn = func() {
		closeMu.Lock()
		defer closeMu.Unlock()
		if !closedQ {
			closedQ = true
			cli.Close()
			close(sendQ)
		}
	}
	acceptors()
	var bc *buffered.Conn
	if wrap {
		bc = buffered.NewConn(pipeConn{srv, c})
		rtspAccept(bc)
	} else {
		rtspAccept(pipeConn{srv, c})
	}
	go func() {
		var src io.Reader = &teeReader{c, cli}
		size := 4096
		if readChunk > 0 {
			size = readChunk
			if size < 16 {
				size = 16 // bufio minimum
			}
		}
		r := bufio.NewReaderSize(src, size)
		for {
			it, err := parseOne(r)
			if err != nil {
				if it.Kind == KAnomaly && len(it.Raw) > 0 {
					c.items <- it
				}
				c.items <- Item{Kind: KEOF}
				return
			}
			c.items <- it
		}
	}()
	return c, bc
}

// DialWS starts a real ws-rtsp session (gorilla client ⇄ TryUpgrade ⇄ rtsp session).
func DialWS(path string) (*Conn, error) {
	d := gws.Dialer{Subprotocols: []string{"rtsp"}, HandshakeTimeout: Watchdog}
	cc, _, err := d.Dial(wsServer()+path, nil)
	if err != nil {
		return nil, err
	}
	c := &Conn{Flavour: "ws", items: make(chan Item, 4096)}
	var wmu sync.Mutex
	c.send = func(s string) error {
		wmu.Lock()
		defer wmu.Unlock()
		return cc.WriteMessage(gws.BinaryMessage, []byte(s))
	}
	c.closeFn = func() { cc.Close() }
	go c.wsReader(cc, false)
	return c, nil
}

func (c *Conn) wsReader(cc *gws.Conn, data bool) {
	for {
		_, msg, err := cc.ReadMessage()
		if err != nil {
			if !data {
				c.items <- Item{Kind: KEOF}
			}
			return
		}
		c.mu.Lock()
		c.msgLog = append(c.msgLog, append([]byte(nil), msg...))
		c.mu.Unlock()
		it := parseMessage(msg)
		it.Data = data
		c.items <- it
	}
}

// DialWSP starts a real WSP session: control channel INIT, data channel JOIN.
func DialWSP(path string, withData bool) (*Conn, error) {
	d := gws.Dialer{Subprotocols: []string{"control"}, HandshakeTimeout: Watchdog}
	cc, _, err := d.Dial(wsServer()+path, nil)
	if err != nil {
		return nil, err
	}
	c := &Conn{Flavour: "wsp", items: make(chan Item, 4096), wspSeq: 1}
	if err = cc.WriteMessage(gws.TextMessage, []byte("WSP/1.1 INIT\r\nproto: rtsp\r\nseq: 1\r\n\r\n")); err != nil {
		return nil, err
	}
	cc.SetReadDeadline(time.Now().Add(Watchdog))
	_, msg, err := cc.ReadMessage()
	if err != nil {
		return nil, err
	}
	cc.SetReadDeadline(time.Time{})
	hd, _ := splitWsp(string(msg))
	c.WspChan = hd["channel"]
	if !strings.HasPrefix(string(msg), "WSP/1.1 200 OK\r\n") || c.WspChan == "" || hd["seq"] != "1" {
		return nil, fmt.Errorf("wsp INIT answered %q", msg)
	}
	var dc *gws.Conn
	if withData {
		// the server answers INIT before it stores the session, so a prompt JOIN can get 404: retry
		deadline := time.Now().Add(Watchdog)
		for {
			d2 := gws.Dialer{Subprotocols: []string{"data"}, HandshakeTimeout: Watchdog}
			dc, _, err = d2.Dial(wsServer()+path, nil)
			if err != nil {
				return nil, err
			}
			dc.WriteMessage(gws.TextMessage, []byte("WSP/1.1 JOIN\r\nchannel: "+c.WspChan+"\r\nseq: 1\r\n\r\n"))
			dc.SetReadDeadline(time.Now().Add(Watchdog))
			_, jm, err := dc.ReadMessage()
			if err == nil && strings.HasPrefix(string(jm), "WSP/1.1 200 OK\r\n") {
				break
			}
			dc.Close()
			if err == nil && strings.HasPrefix(string(jm), "WSP/1.1 404") && time.Now().Before(deadline) {
				time.Sleep(200 * time.Microsecond)
				continue
			}
			return nil, fmt.Errorf("wsp JOIN answered %q %v", jm, err)
		}
		dc.SetReadDeadline(time.Time{})
		go c.wsReader(dc, true)
	}
	var wmu sync.Mutex
	c.send = func(s string) error {
		wmu.Lock()
		defer wmu.Unlock()
		c.wspSeq++
		return cc.WriteMessage(gws.TextMessage, []byte("WSP/1.1 WRAP\r\nseq: "+strconv.Itoa(c.wspSeq)+"\r\n\r\n"+s))
	}
	c.closeFn = func() {
		cc.Close()
		if dc != nil {
			dc.Close()
		}
	}
	go func() {
		for {
			_, msg, err := cc.ReadMessage()
			if err != nil {
				c.items <- Item{Kind: KEOF}
				return
			}
			hd, rest := splitWsp(string(msg))
			ok := strings.HasPrefix(string(msg), "WSP/1.1 200 OK\r\n") && hd["channel"] == c.WspChan && hd["seq"] != ""
			var it Item
			if rest == "" {
				it = Item{Kind: KAnomaly, What: "wsp reply without rtsp response", Raw: msg}
			} else {
				it = parseMessage([]byte(rest))
			}
			it.WspOK = ok
			if it.Header != nil {
				it.Header["wsp-seq"] = hd["seq"]
			}
			c.items <- it
		}
	}()
	return c, nil
}

func splitWsp(m string) (map[string]string, string) {
	hd := map[string]string{}
	i := strings.Index(m, "\r\n\r\n")
	if i < 0 {
		return hd, ""
	}
	for _, l := range strings.Split(m[:i], "\r\n")[1:] {
		if j := strings.Index(l, ":"); j > 0 {
			hd[strings.TrimSpace(l[:j])] = strings.TrimSpace(l[j+1:])
		}
	}
	return hd, m[i+4:]
}

// Send writes one RTSP request (text) to the session.
func (c *Conn) Send(req string) error { return c.send(req) }

// SendSync (tcp) returns when the server has read the whole request from its socket
// (other flavours: same as Send).
func (c *Conn) SendSync(req string) error {
	if c.sendSync != nil {
		return c.sendSync(req)
	}
	return c.send(req)
}

// Next returns the next item, or (Item{}, false) when the watchdog expires.
func (c *Conn) Next() (Item, bool) {
	select {
	case it := <-c.items:
		return it, true
	case <-time.After(nextBudget):
		// the server neither answered nor closed: reported by the caller; do not let every
		// following case of this run wait for the full watchdog again
		nextExpired++
		Expiries++
		switch {
		case nextExpired > 8:
			nextBudget = 500 * time.Millisecond
		default:
			nextBudget = 3 * time.Second
		}
		return Item{}, false
	}
}

// TryNext returns an item if one arrives within d.
func (c *Conn) TryNext(d time.Duration) (Item, bool) {
	select {
	case it := <-c.items:
		return it, true
	case <-time.After(d):
		return Item{}, false
	}
}

func (c *Conn) Close() { c.closeFn() }

// RawLog: every byte received so far (tcp)
func (c *Conn) RawLog() []byte {
	c.mu.Lock()
	defer c.mu.Unlock()
	return append([]byte(nil), c.rawLog...)
}

// Messages: every WebSocket message received so far (ws; wsp data channel)
func (c *Conn) Messages() [][]byte {
	c.mu.Lock()
	defer c.mu.Unlock()
	return append([][]byte(nil), c.msgLog...)
}

// ---- requests ----

// Req is one scripted RTSP request.
type Req struct {
	Method    string
	URL       string
	CSeq      string
	Transport string // "" = no header
	CType     string
	Range     string
	HasRange  bool
	Body      string
}

func (q Req) Wire() string {
	var b strings.Builder
	fmt.Fprintf(&b, "%s %s RTSP/1.0\r\nCSeq: %s\r\n", q.Method, q.URL, q.CSeq)
	if q.Transport != "" {
		fmt.Fprintf(&b, "Transport: %s\r\n", q.Transport)
	}
	if q.CType != "" {
		fmt.Fprintf(&b, "Content-Type: %s\r\n", q.CType)
	}
	if q.HasRange {
		fmt.Fprintf(&b, "Range: %s\r\n", q.Range)
	}
	if q.Body != "" {
		fmt.Fprintf(&b, "Content-Length: %d\r\n", len(q.Body))
	}
	b.WriteString("\r\n")
	b.WriteString(q.Body)
	return b.String()
}

// URLParts computes what the session derives from the request URL with net/url (the
// environment of the model): utils.CanonicalPath(req.URL.Path) and the SETUP path
// (`setupURL.String()` after the `:554` defaulting), following ReadRequest + onSetup.
func URLParts(raw string) (canon, setupPath string, ok bool) {
	u, err := url.ParseRequestURI(strings.TrimSpace(raw))
	if err != nil {
		return "", "", false
	}
	if strings.LastIndex(u.Host, ":") > strings.LastIndex(u.Host, "]") {
		u.Host = strings.TrimSuffix(u.Host, ":")
	}
	canon = utils.CanonicalPath(u.Path)
	su := *u
	if su.Port() == "" {
		su.Host = fmt.Sprintf("%s:554", su.Host)
	}
	return canon, su.String(), true
}

// ControlNorm is the net/url part of getControlPath for an absolute control URL.
func ControlNorm(ctrl string) (string, bool) {
	u, err := url.Parse(ctrl)
	if err != nil {
		return "", false
	}
	if u.Port() == "" {
		u.Host = fmt.Sprintf("%s:554", u.Hostname())
	}
	return u.String(), true
}

// SdpDoc is an SDP document of the environment with what go-sdp makes of it.
type SdpDoc struct {
	Text   string
	OK     bool
	Medias [][2]string // kind v|a|o, control
}

func NewSdpDoc(text string) *SdpDoc {
	d := &SdpDoc{Text: text}
	func() {
		defer func() {
			if recover() != nil {
				d.OK = false
			}
		}()
		s, err := sdp.ParseString(text)
		if err != nil {
			return
		}
		d.OK = true
		for _, m := range s.Media {
			k := "o"
			switch m.Type {
			case "video":
				k = "v"
			case "audio":
				k = "a"
			}
			d.Medias = append(d.Medias, [2]string{k, m.Attributes.Get("control")})
		}
	}()
	return d
}

// ---- fixtures ----

// FakeMulticast implements media.Multicastable and counts members.
type FakeMulticast struct {
	mu      sync.Mutex
	Members int
}

func (f *FakeMulticast) AddMember(io.Closer)     { f.mu.Lock(); f.Members++; f.mu.Unlock() }
func (f *FakeMulticast) ReleaseMember(io.Closer) { f.mu.Lock(); f.Members--; f.mu.Unlock() }
func (f *FakeMulticast) MulticastIP() string     { return McIP }
func (f *FakeMulticast) Port(i int) int          { return McPortBase + i }
func (f *FakeMulticast) TTL() int                { return McTTL }
func (f *FakeMulticast) SourceIP() string        { return McSrc }
func (f *FakeMulticast) Count() int              { f.mu.Lock(); defer f.mu.Unlock(); return f.Members }

const (
	McIP       = "239.1.2.3"
	McPortBase = 16000
	McTTL      = 7
	McSrc      = "10.0.0.9"
)

// Fixture is one registered stream of the environment.
type Fixture struct {
	Path   string
	Doc    *SdpDoc // nil = empty SDP string
	Mc     *FakeMulticast
	Stream *media.Stream
	// Pushed: the stream is PUBLISHED by a real RTSP pusher session (ANNOUNCE, SETUP mode=record over
	// TCP, RECORD on a connection of its own, kept open), so that it is multicast-capable through the
	// real multicast proxy of service/rtsp (member identity, UDP socket, proxy consumer on the stream).
	// Needs a Doc with a video section.
	Pushed bool
	// FellBack: the fixture could not be published by a pusher session and is a plain registered stream
	// with a FakeMulticast instead (the harness counts it)
	FellBack bool
	pusher   *Conn
	pseq   int
}

// pusherAsk sends one request on the pusher's connection and returns the status of its answer (0: none).
func (f *Fixture) pusherAsk(q Req) int {
	f.pseq++
	q.CSeq = "px" + strconv.Itoa(f.pseq)
	if f.pusher.Send(q.Wire()) != nil {
		return 0
	}
	for {
		it, ok := f.pusher.Next()
		if !ok || it.Kind == KEOF {
			return 0
		}
		if it.Kind == KResp && it.Header["CSeq"] == q.CSeq {
			return it.Code
		}
	}
}

// publish (re-)publishes a pushed fixture with a fresh pusher session
func (f *Fixture) publish() bool {
	if f.pusher != nil {
		old := f.Stream
		f.pusher.Close()
		f.pusher = nil
		WaitUntil(func() bool { return media.Get(f.Path) != old || old == nil })
	}
	if f.Doc == nil {
		return false
	}
	ctl := ""
	for _, m := range f.Doc.Medias {
		if m[0] == "v" {
			ctl = m[1]
			break
		}
	}
	if ctl == "" {
		return false
	}
	const base = "rtsp://pusher.example"
	setup := base + f.Path + "/" + ctl
	if len(ctl) >= 7 && strings.EqualFold(ctl[:7], "rtsp://") {
		setup = ctl
	}
	for try := 0; try < 4; try++ {
		// the pusher only ever sends keep-alives: its session must not run into the read time-out while a
		// script waits (up to the watchdog) for something that is never released — the end of the pusher
		// would release it.  The time-out is read once, when the session is created.
		config.VerifSetNetTimeouts(24*time.Hour, 0)
		f.pusher = DialTCP(0)
		config.VerifSetNetTimeouts(0, 0)
		ok := f.pusherAsk(Req{Method: "ANNOUNCE", URL: base + f.Path, CType: "application/sdp", Body: f.Doc.Text}) == 200 &&
			f.pusherAsk(Req{Method: "SETUP", URL: setup, Transport: "RTP/AVP/TCP;unicast;interleaved=0-1;mode=record"}) == 200 &&
			f.pusherAsk(Req{Method: "RECORD", URL: base + f.Path}) == 200
		st := media.Get(f.Path)
		if ok && st != nil && st.Multicastable() != nil {
			// the model's table has a port base: the proxy's four ports must be consecutive (they are, except
			// when the global port pool wraps around: publish again)
			ma := st.Multicastable()
			if ma.Port(1) == ma.Port(0)+1 && ma.Port(2) == ma.Port(0)+2 && ma.Port(3) == ma.Port(0)+3 {
				f.Stream = st
				return true
			}
		}
		old := st
		f.pusher.Close()
		f.pusher = nil
		WaitUntil(func() bool { return old == nil || media.Get(f.Path) != old })
	}
	return false
}

// Ensure (re-)registers the fixture if the registry no longer holds its stream.
func (f *Fixture) Ensure() {
	if f.Pushed {
		// the pusher's session has a read time-out: every Ensure is a keep-alive as well
		// (and a source on which an earlier session left something behind — reported by the harness for that
		// session — is published afresh, so that what is left is not counted against later sessions)
		if f.pusher != nil && f.Stream != nil && media.Get(f.Path) == f.Stream && f.Stream.VerifStatus() == media.StreamOK &&
			f.Held() == 0 && f.pusherAsk(Req{Method: "OPTIONS", URL: "*"}) == 200 {
			return
		}
		if f.publish() {
			return
		}
		// could not be published (never on the unchanged tree): fall back to a plain registered stream
		f.Pushed, f.FellBack = false, true
		f.Mc = &FakeMulticast{}
	}
	if f.Stream != nil && media.Get(f.Path) == f.Stream && f.Stream.VerifStatus() == media.StreamOK {
		return
	}
	text := ""
	if f.Doc != nil {
		text = f.Doc.Text
	}
	if f.Mc != nil {
		f.Mc = &FakeMulticast{}
		f.Stream = media.NewStream(f.Path, text, media.Multicast(f.Mc))
	} else {
		f.Stream = media.NewStream(f.Path, text)
	}
	media.Regist(f.Stream)
}

// Multicast reports whether the fixture's stream is multicast-capable.
func (f *Fixture) Multicast() bool { return f.Mc != nil || f.Pushed }

// Held: what sessions hold on this fixture's stream: the consumers attached to it and, for a
// multicast-capable one, the multicast side.  A multicast player of a published source is a member
// of the source's proxy, which on behalf of its members owns a UDP socket and one consumer on the
// stream: the three are one held resource, and as long as ANY of them is left it is held.
func (f *Fixture) Held() int {
	n := f.Stream.ConsumerCount()
	if f.Mc != nil {
		return n + f.Mc.Count()
	}
	if f.Pushed {
		if members, socket, consuming, ok := rtsp.VerifMulticastState(f.Stream.Multicastable()); ok {
			if members > n {
				n = members
			}
			if (socket || consuming) && n == 0 {
				n = 1
			}
		}
	}
	return n
}

// NormTransport rewrites, in the Transport header of a SETUP answer, the multicast parameters of a
// published fixture's proxy (its address and ports come from a global pool and change with every
// publication) into the constants of the model's table; anything else is left as it is.
func (f *Fixture) NormTransport(h string) string {
	if !f.Pushed || f.Stream == nil || f.Stream.Multicastable() == nil {
		return h
	}
	ma := f.Stream.Multicastable()
	for _, ch := range []int{0, 2} {
		suffix := fmt.Sprintf(";destination=%s;port=%d-%d;source=%s;ttl=%d", ma.MulticastIP(), ma.Port(ch), ma.Port(ch+1), ma.SourceIP(), ma.TTL())
		if strings.HasSuffix(h, suffix) {
			return strings.TrimSuffix(h, suffix) + fmt.Sprintf(";destination=%s;port=%d-%d;source=%s;ttl=%d", McIP, McPortBase+ch, McPortBase+ch+1, McSrc, McTTL)
		}
	}
	return h
}

func VideoAudioSdp(vctl, actl string) string {
	return "v=0\r\no=- 0 0 IN IP4 127.0.0.1\r\ns=x\r\nc=IN IP4 127.0.0.1\r\nt=0 0\r\n" +
		"m=video 0 RTP/AVP 96\r\na=rtpmap:96 MP4V-ES/90000\r\na=control:" + vctl + "\r\n" +
		"m=audio 0 RTP/AVP 0\r\na=rtpmap:0 PCMU/8000\r\na=control:" + actl + "\r\n"
}

func VideoOnlySdp(vctl string) string {
	return "v=0\r\no=- 0 0 IN IP4 127.0.0.1\r\ns=x\r\nc=IN IP4 127.0.0.1\r\nt=0 0\r\n" +
		"m=video 0 RTP/AVP 96\r\na=rtpmap:96 MP4V-ES/90000\r\na=control:" + vctl + "\r\n"
}

func AudioOnlySdp(actl string) string {
	return "v=0\r\no=- 0 0 IN IP4 127.0.0.1\r\ns=x\r\nc=IN IP4 127.0.0.1\r\nt=0 0\r\n" +
		"m=audio 0 RTP/AVP 0\r\na=control:" + actl + "\r\n"
}

// waitBudget: WaitUntil waits up to the watchdog for a condition that the unchanged code always
// reaches within microseconds.  Once a wait has expired (something leaks: a finding is reported by
// the caller) later waits are cut short so that the run still ends in reasonable time.
var waitBudget = Watchdog
var nextBudget = Watchdog
var nextExpired int
var waitExpired int

// Expiries counts the watchdog expiries of Next / WaitUntil so far.  A harness compares it before
// and after a case: a case during which a watchdog expired is re-run alone with FullBudgets()
// before anything is reported (a wall-clock expiry is never by itself a finding).
var Expiries int

// FullBudgets restores the full watchdog for the next waits (used for the confirming re-run);
// the expiry counters keep running, so a run in which everything hangs still ends.
func FullBudgets() {
	waitBudget = Watchdog
	nextBudget = Watchdog
}

// Guard runs f (a direct call into the implementation) under a watchdog: false when f has not
// returned within the budget (the goroutine is abandoned).
func Guard(budget time.Duration, f func()) (done bool, panicked interface{}) {
	ch := make(chan interface{}, 1)
	go func() {
		defer func() { ch <- recover() }()
		f()
	}()
	select {
	case p := <-ch:
		return true, p
	case <-time.After(budget):
		return false, nil
	}
}

// WaitUntil polls cond (no sleep longer than 100µs) until it holds or the budget expires.
func WaitUntil(cond func() bool) bool {
	deadline := time.Now().Add(waitBudget)
	for i := 0; ; i++ {
		if cond() {
			return true
		}
		if time.Now().After(deadline) {
			waitExpired++
			Expiries++
			switch {
			case waitExpired > 20:
				waitBudget = 20 * time.Millisecond
			default:
				waitBudget = 500 * time.Millisecond
			}
			return false
		}
		if i < 50 {
			runtime.Gosched()
		} else {
			time.Sleep(100 * time.Microsecond)
		}
	}
}
