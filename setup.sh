#!/bin/sh
# Build the framework from files on disk only (offline).  Every ./check rebuilds what it
# needs from /repo's working tree anyway; this only warms the Lean and Go build caches.
set -e
cd "$(dirname "$0")"
export GOFLAGS=-mod=mod GOPROXY=off GOSUMDB=off GOTOOLCHAIN=local CGO_ENABLED=0
mkdir -p .build evidence replays
cp /repo/go.sum harness/go.sum 2>/dev/null || true
for d in harness/tr/*/; do
  id=$(basename "$d")
  (cd harness && go build -o ../.build/tr_$id ./tr/$id) && ./.build/tr_$id -repo /repo -out lean/IpcHub/Gen || true
  (cd harness && go build -tags verif -o ../.build/h_$id ./cmd/$id) || true
done
(cd lean && lake build IpcHub || true)
for d in harness/cmd/*/; do
  id=$(basename "$d")
  (cd lean && lake build driver_$id) || true
done
echo setup done
