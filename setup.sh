#!/bin/sh
# Build the framework from files on disk only (offline).
set -e
cd "$(dirname "$0")"
export GOFLAGS=-mod=mod GOPROXY=off GOSUMDB=off GOTOOLCHAIN=local CGO_ENABLED=0
mkdir -p .build evidence replays
(cd harness && cp /repo/go.sum . 2>/dev/null || true; go build -o ../.build/translator ./cmd/translator)
./.build/translator -repo /repo -out lean/IpcHub/Gen
(cd lean && lake build driver && lake build IpcHub || true)
(cd harness && go build -tags verif -o ../.build/harness ./cmd/harness)
echo setup done
